#!/bin/bash
# Runs every registered quick (or thorough) check sequentially; prints one summary line each.
#   [CHECKS="C01 C02"] tools/run_all.sh [quick|thorough] [logdir]
tier=${1:-quick}
logs=${2:-/tmp}
cd "$(dirname "$0")/.."
mkdir -p "$logs"
for p in ${CHECKS:-C20 C17 C18 C19 C09 C10 C13 C01 C08 C03 C02 C04 C05 C06 C07 C11 C12 C14 C15 C16}; do
  s=$(date +%s)
  /venv/bin/python -W ignore -m vf.run $p --tier $tier > $logs/runall_$p.log 2>&1
  rc=$?
  e=$(( $(date +%s) - s ))
  echo "$p rc=$rc ${e}s $(grep -c VIOLATION $logs/runall_$p.log) violations; $(tail -1 $logs/runall_$p.log | cut -c1-150)"
done
