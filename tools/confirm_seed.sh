#!/bin/bash
# Confirm a sub-agent's seeded change independently:  tools/confirm_seed.sh <Cxx> [<suffix>]
# takes the uncommitted diff + demo.py from /tmp/wt/<Cxx>, re-applies it to a fresh scratch worktree,
# runs the pinned test suite with it, the demo with it (must exit != 0) and without it (must exit 0).
id=$1; sfx=$2
src=${SRC_ROOT:-/tmp/wt}/$id
dst=/verif/seeded/$id$sfx
mkdir -p $dst
git -C $src diff > $dst/patch.diff
cp $src/demo.py $dst/demo.py
wt=/tmp/confirmwt/$id$sfx
rm -rf $wt; mkdir -p /tmp/confirmwt
git -C /repo worktree add -q --detach $wt HEAD || exit 2
cd $wt
cp $dst/demo.py .
MPLBACKEND=Agg PYTHONPATH=$wt timeout 1500 /venv/bin/python demo.py > $dst/demo_without.log 2>&1; rc0=$?
git apply $dst/patch.diff || { echo "patch does not apply"; exit 2; }
MPLBACKEND=Agg PYTHONPATH=$wt timeout 1500 /venv/bin/python demo.py > $dst/demo_with.log 2>&1; rc1=$?
/venv/bin/python -m pytest -q -p no:cacheprovider --timeout=900 -n 4 hypnotoad/test_suite > $dst/pytest_with.log 2>&1
tests=$(tail -1 $dst/pytest_with.log)
cd /verif
git -C /repo worktree remove --force $wt
echo "$id$sfx demo_without_rc=$rc0 demo_with_rc=$rc1 tests: $tests"
