"""Apply every corpus oracle to the members of the shared corpus whose label matches a glob.

    /venv/bin/python tools/subset_check.py 'T/*' [quick|thorough] [seed] [C01 C02 ...]

Development aid (not registered in MANIFEST.json): prints fails per oracle, writes nothing.
"""
import fnmatch
import os
import sys

sys.path.insert(0, os.path.dirname(os.path.dirname(os.path.abspath(__file__))))
os.environ.setdefault("PYTHONHASHSEED", "0")
from vf import common  # noqa: E402

common.setup_env()
from vf import corpus, gridcheck, gridlab  # noqa: E402

ORACLES = {
    "C01": "check", "C02": "check", "C03": "check", "C04": "check", "C05": "check", "C06": "check",
    "C07": "check", "C08": "check", "C09": "check_grid", "C11": "check",
}


def main():
    pat = sys.argv[1]
    tier = sys.argv[2] if len(sys.argv) > 2 else "quick"
    seed = int(sys.argv[3]) if len(sys.argv) > 3 else 1
    props = sys.argv[4:] or sorted(ORACLES)
    descs = [d for d in corpus.base_corpus(tier, seed) if fnmatch.fnmatch(corpus.label(d), pat)]
    print("%d descriptors match %r" % (len(descs), pat))
    cases = gridlab.run_cases(descs, timeout=900)
    for c in cases:
        print(" ", corpus.label(c.desc), c.outcome, c.status.get("exc_type", ""), str(c.status.get("exc_msg", ""))[:100])
    for p in props:
        mod = "vf.props." + p.lower()
        try:
            outs = gridcheck.check_cases(mod, ORACLES[p], cases)
        except Exception as e:  # noqa: BLE001
            print(p, "ORACLE CRASH", str(e)[-1500:])
            continue
        for c, o in zip(cases, outs):
            if o is None:
                continue
            for b, d, lab in o.get("fails", []):
                print(p, corpus.label(c.desc), b, str(d)[:300])
        print(p, "done; nontrivial:", sum(1 for o in outs if o and o.get("nontrivial", True)))


if __name__ == "__main__":
    main()
