#!/bin/bash
# Evaluate a seeded change against checks without touching /repo:
#   tools/eval_seed.sh <patch.diff> <tag> <Cxx> [<Cyy> ...]
# A scratch worktree of /repo's HEAD gets the patch; checks run with VF_REPO pointing at it and
# private evidence / replay / cache directories. The worktree is removed afterwards.
patch=$1; tag=$2; shift 2
wt=/tmp/evalwt/$tag
rm -rf $wt; mkdir -p /tmp/evalwt
git -C /repo worktree add -q --detach $wt HEAD || exit 2
git -C $wt apply $patch || { echo "patch does not apply"; git -C /repo worktree remove --force $wt; exit 2; }
out=/tmp/evalout/$tag; mkdir -p $out
cd /verif
for p in "$@"; do
  s=$(date +%s)
  VF_REPO=$wt VF_CACHE=/tmp/evalcache/$tag VF_EVIDENCE_DIR=$out/evidence VF_REPLAY_DIR=$out/replays \
    /venv/bin/python -W ignore -m vf.run $p --tier ${TIER:-quick} > $out/$p.log 2>&1
  rc=$?
  line="$tag $p rc=$rc $(( $(date +%s) - s ))s :: $(grep -E 'bucket=' $out/$p.log | cut -c1-160 | head -3 | tr '\n' '|')"
  echo "$line"
  # keep the outcome beside the seed (tier, exit code, first buckets)
  [ -d /verif/seeded/$tag ] && echo "tier=${TIER:-quick} $line" >> /verif/seeded/$tag/eval.txt
done
git -C /repo worktree remove --force $wt
rm -rf /tmp/evalcache/$tag
