# Table of registered checks (exec'd by mkmanifest.py)
NA_REASONS = {}
NOTES = (
    "All checks are property-based / fuzzing checks (Hypothesis generators, exhaustive lattice "
    "enumeration with exact rational oracles, atheris). cwd=/verif. Exit 0 held, 1 VIOLATION, "
    "2 harness error. VERIF_SEED selects the Hypothesis seed. See DESIGN.md."
)
ENGINES = [
    {
        "name": "unitlab",
        "path": "vf/unitlab.py",
        "serves_properties": ["C20"],
        "kind_free_text": "in-process Hypothesis driver with failure buckets, shrinking to JSON replay files, sharded over 16 processes",
    },
]

check(
    "C20",
    "exploration",
    "Exhaustive enumeration of all segment x 3-vertex closed polylines on a small integer lattice "
    "against an exact rational (fractions.Fraction) classification, plus Hypothesis search over real "
    "coordinates and 3..8 vertex polylines decided away from degenerate configurations; metamorphic "
    "variants (swap ends, reverse polyline, swap R/Z) cover all four slope-class branches. Generated-input "
    "search is the right level: the predicates are pure functions of a few floats and an exact oracle exists.",
    "Trusted base: Python fractions, the harness' exactgeom module. Degenerate (collinear/overlapping, "
    "touching on real coordinates) configurations are counted, not asserted.",
    "exhaustive lattice enumeration + Hypothesis PBT against exact rational oracle; metamorphic relations",
    "DESIGN.md section 3 C20",
    "unitlab",
)

ENGINES[0]["serves_properties"].append("C17")
ENGINES.append(
    {
        "name": "atheris-geqdsk",
        "path": "vf/fuzz_geqdsk.py",
        "serves_properties": ["C17"],
        "kind_free_text": "coverage-guided fuzz target (libFuzzer via atheris) with the round-trip oracle inside the target; thorough tier only",
    }
)
check(
    "C17",
    "exploration",
    "Hypothesis-generated geqdsk dictionaries (all sizes incl. 1xN, not divisible by 5, >=1000; full two-digit "
    "exponent range; optional entries; header variants) are written by hypnotoad and by an independent strict "
    "fixed-width reference writer (abutting numbers, sign/exponent styles, other chunkings), read back by hypnotoad "
    "and compared to ten significant digits with exact decimal arithmetic; read_geqdsk / TORPEX gfile mapping is "
    "checked at every node of generated files; thorough adds two atheris campaigns with the oracle in the target.",
    "Trusted base: python decimal, the harness' reference writer (format (6a8,3i4)/(5e16.9)/(2i5)). Values restricted "
    "to two-digit exponents as the property states.",
    "Hypothesis PBT round-trip + differential against reference writer; atheris coverage-guided fuzzing",
    "DESIGN.md section 3 C17",
    "unitlab",
)

ENGINES.append(
    {
        "name": "gridlab",
        "path": "vf/gridlab.py",
        "serves_properties": ["C01", "C08"],
        "kind_free_text": "Hypothesis-generated grid descriptors executed through hypnotoad in 16 single-case subprocesses (collect - execute - check - shrink), cache keyed on descriptor + content hash of /repo sources; own parallel delta-debugging shrinker",
    }
)
check(
    "C01",
    "exploration",
    "Every point of all seven location arrays of generated complete grids (all topologies the generator reaches, both "
    "interpolation methods, orthogonal and non-orthogonal, guards 0..3) is evaluated on the harness' own interpolant of the "
    "input psi and compared with the radial psi grid value of its index and with psixy; pinned X-point corners are the only "
    "exemption and are counted.",
    "Trusted base: scipy RectBivariateSpline / own cosine-series evaluation built by the harness from the same input array; "
    "tolerance 4*refine_atol*max(1,|psi|). Cases hypnotoad refuses are counted, not asserted.",
    "generated-grid PBT (Hypothesis descriptors, parallel execution, reference-field oracle, own shrinker)",
    "DESIGN.md section 3 C01",
    "gridlab",
)
check(
    "C08",
    "exploration",
    "For generated grids (shared corpus plus a topology-emphasis corpus with strongly unequal region sizes, guards 0..3, "
    "start_at_upper_outer) the cell adjacency exhibited by the four corner arrays is compared cell by cell with a reference "
    "model of BOUT++'s reading of ixseps*/jyseps*/ny_inner, together with tiling, connection symmetry, shared-edge "
    "coincidence, index ordering, y-coord/theta/chi definitions.",
    "Trusted base: vf/boutmodel.py (BOUT++ manual semantics of the topology integers). Coincidence tolerances 1e-7 (y joins, "
    "copied values) and 1e-6 (x joins, independently computed).",
    "generated-grid PBT against a reference topology model; parallel shrinker",
    "DESIGN.md section 3 C08",
    "gridlab",
)

ENGINES[-1]["serves_properties"].append("C03")
check(
    "C03",
    "exploration",
    "Brxy/Bzxy/Bpxy/Btxy/Bxy/pressure at centre, xlow and ylow of generated grids are compared with the harness' own "
    "interpolant and the generating profile cubics (incl. reverse_current / reverse_Bt / psi_divide_twopi variants and "
    "disconnected double nulls whose profile extends beyond both separatrices, so the per-leg reflection is observable); "
    "psi_axis/psi_bdry/Bt_axis against the harness' own critical-point search; a Hypothesis unit stratum checks the "
    "documented exponential continuation of extrapolated profiles.",
    "Trusted base: harness interpolant and profile cubics; tolerances 1e-9 relative for fields, scalars from "
    "xpoint_refine_atol and the reference Hessian.",
    "generated-grid PBT with reference-field oracle + Hypothesis unit PBT",
    "DESIGN.md section 3 C03",
    "gridlab",
)

ENGINES[-1]["serves_properties"].append("C02")
check(
    "C02",
    "exploration",
    "For generated grids the written metric is checked at centre, xlow and ylow: contravariant x covariant = identity, "
    "J = hy/Bpxy and |J| sqrt(det) = 1, closed forms in R, Bp, hy, dphidy and a non-orthogonality angle measured by the "
    "harness, and - independent of sign conventions - against scalar products of the actual displacements between "
    "neighbouring grid points (g_11, g_12, poloidal part of g_22, sign of g12) and the finite difference of the stored "
    "zShift (g_23 = g_33 dzShift/dy), for both signs of d(psi)/dr and both values of orthogonal.",
    "Trusted base: harness reference field for grad(psi); finite-difference bands from two stencils plus integrand "
    "variation (stated in evidence assumptions).",
    "generated-grid PBT with closed-form and displacement (metamorphic/geometric) oracles",
    "DESIGN.md section 3 C02",
    "gridlab",
)

ENGINES[0]["serves_properties"].append("C13")
check(
    "C13",
    "fault_enumeration",
    "ParallelMap is driven through Hypothesis-generated histories (np 1..5, repeated calls on one map, up to 10 tasks) "
    "in which the harness owns the completion order (tasks block on tokens released in the generated order) and injects "
    "0..2 failing tasks raising one of five exception kinds (plain, class local to a function, func_timeout.FunctionTimedOut, "
    "unpicklable / un-unpicklable payloads); every single-fault position for n<=8 tasks is enumerated for np 2 and 3. Oracle: "
    "result list == serial map position by position, the exception of the first failing task when a task fails, never a "
    "deadlock (proved by a dead worker while the call is still waiting, or by every task having announced its end while all "
    "workers use no CPU time for 15 s, not by a time-out of work in progress), later calls unaffected. Grid level: "
    "number_of_processors 1/2/5 give bit-identical files.",
    "Schedule space covered at task-completion granularity; instruction-level interleavings inside multiprocessing are "
    "not controlled. Wall-clock caps only classify a case as inconclusive.",
    "schedule-controlled PBT with fault injection (Hypothesis histories) + exhaustive single-fault enumeration + differential grid comparison",
    "DESIGN.md section 3 C13",
    "unitlab",
)

ENGINES[0]["serves_properties"].append("C18")
check(
    "C18",
    "exploration",
    "Hypothesis-generated smooth arrays on grids of any size/aspect, both interpolation methods: node reproduction, "
    "differential comparison of psi and its first/second derivatives with the harness' own spline / cosine-series "
    "evaluation, Richardson-controlled finite-difference consistency of every exposed derived field (Bp_R, Bp_Z, f_R, f_Z, "
    "d2psi*, dBR*, dBZ*, dBzeta*, dB2*, dB*), div B = 0, scalar/ndarray/MultiLocationArray argument equivalence, and "
    "convergence of both methods to the analytic function under resolution doubling.",
    "Trusted base: vf/refeq.py evaluation; finite-difference acceptance band 4|FD_h-FD_h/2| + stated floors; evaluation "
    "points keep spline knots out of the stencils.",
    "Hypothesis PBT: differential against reference implementation + metamorphic derivative-consistency relations",
    "DESIGN.md section 3 C18",
    "unitlab",
)

ENGINES[0]["serves_properties"].append("C19")
check(
    "C19",
    "exploration",
    "find_critical is run on Hypothesis-generated Gaussian-sum flux functions (sub-grid shifts, rotation, both signs, "
    "resolutions 24..100, non-square boxes, plus a mirror-symmetric tie stratum) and compared with the harness' own "
    "multi-start Newton on the analytic function: every well-separated non-degenerate reference point inside the searched "
    "interior returned exactly once, returned points critical on the harness' spline, classification = sign of Hessian "
    "determinant, primary O-point nearest the centre, X-points ordered and filtered by the documented monotonic rule; "
    "tokamak level: single vs double null decided by psinorm_sol around the secondary X-point, region count and "
    "inner/outer leg labels; findSaddlePoint on rotated perturbed saddles.",
    "Trusted base: analytic derivatives of the Gaussian family, harness Newton; ambiguous cases near thresholds excluded both ways and counted.",
    "Hypothesis PBT against a reference model (analytic critical points)",
    "DESIGN.md section 3 C19",
    "unitlab",
)

ENGINES[0]["serves_properties"].append("C09")
ENGINES[-1 if ENGINES[-1]["name"] == "gridlab" else 2]["serves_properties"].append("C09")
check(
    "C09",
    "exploration",
    "Unit stratum: Hypothesis parameters of the radial spacing function over all seven analytic branches and both "
    "orderings, incl. a constructed stratum on the branch thresholds: end values, monotonicity at the indices used (or "
    "refusal by the 1d-grid guard), requested end gradients and vanishing second derivative (one-sided Richardson "
    "differences), continuity in every parameter across branch switches, nesting under n -> 2n. Grid stratum: per-region "
    "psi_vals of generated grids (monotone, centres midway, shared boundary values, requested core/SOL limits, separatrix "
    "values are faces, dx = face difference = psixy_xlow difference) and nx -> 2nx derived equilibria keep every face.",
    "Trusted base: finite-difference bands as stated in the evidence assumptions; end-gradient ratio range [1e-3, 8].",
    "Hypothesis PBT with algebraic/metamorphic oracles (end values, monotonicity, derivative constraints, continuity, nesting)",
    "DESIGN.md section 3 C09",
    "unitlab",
)

ENGINES[0]["serves_properties"].append("C10")
check(
    "C10",
    "exploration",
    "Hypothesis parameters of the sqrt / monotonic / linear poloidal spacing constructors, directly and through "
    "getSfuncFixedSpacing for every region kind and guard count: s(0)=0, s(N)=L, strictly increasing over the indices "
    "used or refused by the run-time guard, requested end behaviour in normalised index (Richardson limits), "
    "resolution consistency s_{2N,2N_norm}(2i)=s_{N,N_norm}(i), equal spacing either side of an X-point join; grid "
    "level: ny -> 2ny derived orthogonal grids keep every original y-face.",
    "Trusted base: Richardson error estimates as stated; ValueError is the documented refusal.",
    "Hypothesis PBT with algebraic and metamorphic (resolution-doubling) oracles",
    "DESIGN.md section 3 C10",
    "unitlab",
)

ENGINES[-1 if ENGINES[-1]["name"] == "gridlab" else 2]["serves_properties"].append("C04")
check(
    "C04",
    "exploration",
    "For generated orthogonal grids every pair of radially consecutive points (cell-centre/x-face columns and "
    "y-face/corner columns of every region) is joined by the harness' own high-accuracy integration of "
    "dr/dpsi = grad(psi)/|grad(psi)|^2 on the reference field; the grid point must lie within the perpendicular-following "
    "tolerance of the traced point, the chord must be parallel to grad(psi) within the turning of the field over the step, "
    "and g12, g13, g_12 must vanish identically.",
    "Trusted base: reference interpolant + scipy DOP853 at rtol 1e-11. X-point-pinned corners exempt and counted.",
    "generated-grid PBT with reference-trajectory oracle",
    "DESIGN.md section 3 C04",
    "gridlab",
)

ENGINES[-1 if ENGINES[-1]["name"] == "gridlab" else 2]["serves_properties"].append("C05")
check(
    "C05",
    "exploration",
    "For generated grids the harness follows the reference flux surface between consecutive grid points of every "
    "surface (y-face -> centre -> y-face, all four locations, across region joins, along each region's own contours) "
    "and compares the traced arc lengths with hy*dy, hy_ylow*dy, the increments and origin of poloidal_distance, its "
    "continuity at joins and total_poloidal_distance (NaN pattern included); points must be in poloidal order; the same "
    "descriptor at Nfine, 2 Nfine, 4 Nfine must converge quadratically.",
    "Trusted base: reference interpolant + DOP853 traces at rtol 1e-11; tolerance from the traced turning in windows of "
    "one FineContour spacing (chord-sum error), safety 20. Three scoped known findings (see known_findings.json).",
    "generated-grid PBT with reference-trajectory oracle + metamorphic Nfine refinement",
    "DESIGN.md section 3 C05",
    "gridlab",
)

ENGINES[-1 if ENGINES[-1]["name"] == "gridlab" else 2]["serves_properties"].append("C06")
check(
    "C06",
    "exploration",
    "For generated grids with toroidal field the harness integrates Bt/(R|Bp|) along the reference flux surface between "
    "consecutive grid points of every surface and compares with the increments of zShift along each chain of y-connected "
    "regions (origin, continuity at every join except the single ShiftAngle jump), ShiftAngle against the closed "
    "integral (2 pi q for the circular family, one and two q coefficients) and its NaN pattern, dphidy = "
    "hy*Btxy/(Bpxy*Rxy), ShiftTorsion = centred x-difference of dphidy at centre, ylow and xlow.",
    "Trusted base: reference interpolant + DOP853; tolerance = 5 x trapezoid/interpolation remainder estimated on the "
    "reference path at spacing L/Nfine.",
    "generated-grid PBT with reference field-line-integral oracle",
    "DESIGN.md section 3 C06",
    "gridlab",
)

ENGINES[-1 if ENGINES[-1]["name"] == "gridlab" else 2]["serves_properties"].append("C07")
check(
    "C07",
    "exploration",
    "For generated grids (tokamak family with non-constant fpol, both signs, orthogonal and non-orthogonal; circular with "
    "one and two q coefficients) curl_bOverB_x/y/z at centre, ylow (and xlow on orthogonal grids) are compared with "
    "curl(b/B) of the harness' reference field projected on grad x = grad psi, grad y (perpendicular to the measured "
    "radial grid direction, magnitude 1/(hy cos beta)) and grad z; bxcv* = Bxy/2 x curl*; metamorphic: the two "
    "curvature_type formulations converge to each other under (nx,ny) -> (2nx,2ny).",
    "Trusted base: harness' own curl chain (self-tested against finite differences of an analytic field) on the "
    "reference interpolant. Tolerance 1e-6 relative.",
    "generated-grid PBT with reference-field oracle + metamorphic resolution doubling",
    "DESIGN.md section 3 C07",
    "gridlab",
)

ENGINES[-1 if ENGINES[-1]["name"] == "gridlab" else 2]["serves_properties"].append("C11")
check(
    "C11",
    "exploration",
    "For generated grids with rectangular, chamfered (slanted targets), tilted and subdivided/perturbed wall polygons "
    "(clockwise or anticlockwise input, up to 40 vertices, guards 0..3): exact rational point-polyline distance of every "
    "surface's target faces (non-orthogonal) / the separatrix target (orthogonal), exact point-in-polygon side of cell "
    "centres between and beyond the targets, penalty_mask recomputed from the cell's two y-face points with the exact "
    "wall crossing, and closed_wall_R/Z against the input wall (anticlockwise, closed).",
    "Trusted base: vf/exactgeom.py (fractions). Tolerances derived from refine_atol, |grad psi| and the sagitta of a "
    "FineContour chord.",
    "generated-grid PBT with exact-geometry oracle",
    "DESIGN.md section 3 C11",
    "gridlab",
)

ENGINES[-1 if ENGINES[-1]["name"] == "gridlab" else 2]["serves_properties"].append("C12")
check(
    "C12",
    "exploration",
    "Adversarial Hypothesis descriptors at and beyond the limits of the supported envelope (psi ranges past the wall or the "
    "second X-point, 1-2 cells per region, up to 6 guard cells, spacing lengths over six decades, 9x9..33x33 input psi, "
    "extreme tolerances, every non-orthogonal spacing method, distorted equilibria): an exception is a pass, a written "
    "grid is validated completely (documented variable set and shapes, finiteness with exactly the documented NaNs, "
    "hy, dy > 0, one sign of J, no folded cell); unknown / invalid options through the command-line entry points and "
    "equilibrium-mesh option mismatches must be refused; every shipped example geometry and option file is run through "
    "its entry point.",
    "The supported envelope is open-ended; the adversarial strategy covers the stated strata. Shipped geqdsk option "
    "files can only be checked for acceptance because their equilibria are git-LFS pointers.",
    "adversarial PBT (Hypothesis) with a validity-predicate oracle + enumeration of shipped inputs",
    "DESIGN.md section 3 C12",
    "gridlab",
)

ENGINES[0]["serves_properties"].append("C14")
ENGINES[-1 if ENGINES[-1]["name"] == "gridlab" else 2]["serves_properties"].append("C14")
check(
    "C14",
    "exploration",
    "(a) generated grids are produced twice in fresh processes and compared bit for bit; (b) Hypothesis over all subsets "
    "of the sign/scale/profile options checks that constructing a TokamakEquilibrium leaves the caller's arrays, wall and "
    "settings byte-identical and that a second build from the same objects is identical; (c) a Hypothesis "
    "RuleBasedStateMachine generates histories of circular and tokamak constructions in one interpreter after which a "
    "probe grid must have the fingerprint computed in a fresh interpreter; (d) geqdsk + yaml -> hypnotoad-geqdsk -> "
    "hypnotoad-recreate-inputs (byte-identical geqdsk text, safe-loadable YAML containing every option) -> "
    "hypnotoad-geqdsk again -> bit-identical grid.",
    "Only grid_id and version/provenance strings may differ. Histories are bounded (<= 6 steps).",
    "Hypothesis PBT + stateful (RuleBasedStateMachine) history generation + round-trip / differential oracles",
    "DESIGN.md section 3 C14",
    "unitlab",
)

ENGINES[-1 if ENGINES[-1]["name"] == "gridlab" else 2]["serves_properties"].append("C16")
check(
    "C16",
    "exploration",
    "Derived descriptor pairs: the mirror image of Hypothesis-generated equilibria in the midplane (blob centres, wall, "
    "lower/upper options exchanged) must give the reflected grid region by region with the y order reversed (positions, "
    "psixy, hy, |Bp|, B, metric magnitudes, ixseps exchanged for disconnected double nulls); reverse_current / reverse_Bt "
    "on the original arrays must be bit-identical to grids from arrays negated by the caller and relate to the unreversed "
    "grid by the documented sign changes with unchanged positions.",
    "Position tolerance for mirror pairs 20 x (10 refine_atol + 4e-8 + (L/Nfine)^2) since contours are traversed in opposite "
    "directions; reverse_* identities are exact.",
    "metamorphic PBT (mirror / sign-reversal relations between generated grids)",
    "DESIGN.md section 3 C16",
    "gridlab",
)

ENGINES[-1 if ENGINES[-1]["name"] == "gridlab" else 2]["serves_properties"].append("C15")
check(
    "C15",
    "exploration",
    "Hypothesis-generated histories (1..4 steps) of redistributePoints + calculateRZ calls on non-orthogonal meshes, with "
    "generated subsets of the nonorthogonal_* settings (returning to earlier values, changing the spacing method, "
    "geometry() in between, dictionaries that also change other settings) are executed in a worker exactly as the GUI "
    "does; after each step the region end faces must not have moved, and the final grid is compared with a mesh built from "
    "scratch with the original other settings and the final non-orthogonal settings.",
    "Histories bounded to 4 steps; tolerance 1e-6 + 20 (L/Nfine)^2 in position. One scoped known finding (spacing method).",
    "history generation (Hypothesis) with a from-scratch reference build as oracle",
    "DESIGN.md section 3 C15",
    "gridlab",
)
