# Table of registered checks (exec'd by mkmanifest.py)
NA_REASONS = {}
NOTES = (
    "All checks are property-based / fuzzing checks (Hypothesis generators, exhaustive lattice "
    "enumeration with exact rational oracles, atheris). cwd=/verif. Exit 0 held, 1 VIOLATION, "
    "2 harness error. VERIF_SEED selects the Hypothesis seed. See DESIGN.md."
)
ENGINES = [
    {
        "name": "unitlab",
        "path": "vf/unitlab.py",
        "serves_properties": ["C20"],
        "kind_free_text": "in-process Hypothesis driver with failure buckets, shrinking to JSON replay files, sharded over 16 processes",
    },
]

check(
    "C20",
    "exploration",
    "Exhaustive enumeration of all segment x 3-vertex closed polylines on a small integer lattice "
    "against an exact rational (fractions.Fraction) classification, plus Hypothesis search over real "
    "coordinates and 3..8 vertex polylines decided away from degenerate configurations; metamorphic "
    "variants (swap ends, reverse polyline, swap R/Z) cover all four slope-class branches. Generated-input "
    "search is the right level: the predicates are pure functions of a few floats and an exact oracle exists.",
    "Trusted base: Python fractions, the harness' exactgeom module. Degenerate (collinear/overlapping, "
    "touching on real coordinates) configurations are counted, not asserted.",
    "exhaustive lattice enumeration + Hypothesis PBT against exact rational oracle; metamorphic relations",
    "DESIGN.md section 3 C20",
    "unitlab",
)

ENGINES[0]["serves_properties"].append("C17")
ENGINES.append(
    {
        "name": "atheris-geqdsk",
        "path": "vf/fuzz_geqdsk.py",
        "serves_properties": ["C17"],
        "kind_free_text": "coverage-guided fuzz target (libFuzzer via atheris) with the round-trip oracle inside the target; thorough tier only",
    }
)
check(
    "C17",
    "exploration",
    "Hypothesis-generated geqdsk dictionaries (all sizes incl. 1xN, not divisible by 5, >=1000; full two-digit "
    "exponent range; optional entries; header variants) are written by hypnotoad and by an independent strict "
    "fixed-width reference writer (abutting numbers, sign/exponent styles, other chunkings), read back by hypnotoad "
    "and compared to ten significant digits with exact decimal arithmetic; read_geqdsk / TORPEX gfile mapping is "
    "checked at every node of generated files; thorough adds two atheris campaigns with the oracle in the target.",
    "Trusted base: python decimal, the harness' reference writer (format (6a8,3i4)/(5e16.9)/(2i5)). Values restricted "
    "to two-digit exponents as the property states.",
    "Hypothesis PBT round-trip + differential against reference writer; atheris coverage-guided fuzzing",
    "DESIGN.md section 3 C17",
    "unitlab",
)
