"""Regenerate seeded/README.md from seeded/<id>/meta.json and seeded/<id>/eval.txt.

eval.txt lines are appended by tools/eval_seed.sh: "tier=<t> <tag> <Cxx> rc=<n> <secs>s :: <buckets>".
For every (seed, check) the *last* line of each tier counts.
"""
import json
import os
import re

ROOT = os.path.join(os.path.dirname(os.path.dirname(os.path.abspath(__file__))), "seeded")


def main():
    rows = []
    for sid in sorted(os.listdir(ROOT)):
        d = os.path.join(ROOT, sid)
        mp = os.path.join(d, "meta.json")
        if not os.path.isfile(mp):
            continue
        meta = json.load(open(mp))
        last = {}
        ep = os.path.join(d, "eval.txt")
        if os.path.exists(ep):
            for line in open(ep):
                m = re.match(r"tier=(\S+) (\S+) (C\d\d) rc=(\d+)\s*(\d+s)?\s*::\s*(.*)", line.strip())
                if not m:
                    continue
                tier, tag, chk, rc, secs, rest = m.groups()
                buckets = re.findall(r"bucket=(\S+)", rest)
                last[(chk, tier)] = (int(rc), buckets)
        caught, missed = [], []
        for (chk, tier), (rc, buckets) in sorted(last.items()):
            if rc == 1:
                caught.append("%s %s: %s" % (chk, tier, ", ".join(sorted(set(buckets))[:3]) or "(violation)"))
            elif rc == 0:
                missed.append("%s %s" % (chk, tier))
            else:
                missed.append("%s %s (harness exit %d)" % (chk, tier, rc))
        meta["evaluation"] = {"caught_by": caught, "quiet": missed}
        json.dump(meta, open(mp, "w"), indent=1)
        rows.append((sid, meta, caught, missed))
    out = [
        "# Seeded changes",
        "",
        "Each directory holds a change produced by a fresh sub-agent that saw only the text of one property and a",
        "scratch worktree of /repo: `patch.diff`, the agent's `demo.py` (exit 1 with the change, 0 without), the logs",
        "of the independent confirmation (`tools/confirm_seed.sh`: fresh worktree, demo without / with the patch, the",
        "pinned 159 tests with the patch), `meta.json` and `eval.txt` (outcome of the registered checks run against a",
        "scratch worktree with the patch applied, `tools/eval_seed.sh`). None of these changes is ever committed to /repo.",
        "",
        "| seed | change | needs to manifest | caught by | quiet checks that were tried |",
        "|---|---|---|---|---|",
    ]
    for sid, meta, caught, missed in rows:
        out.append("| %s | %s | %s | %s | %s |" % (
            sid, meta["change"].replace("|", "/"), meta["needs_to_manifest"].replace("|", "/"),
            "<br>".join(c.replace("|", "/") for c in caught) or "**not caught**", "<br>".join(missed) or "-"))
    out.append("")
    open(os.path.join(ROOT, "README.md"), "w").write("\n".join(out))
    print("\n".join("%s caught=%d quiet=%d" % (sid, len(c), len(m)) for sid, _, c, m in rows))


if __name__ == "__main__":
    main()
