#!/usr/bin/env python3
"""Regenerates /verif/MANIFEST.json from the table below and validates it."""
import json
import os
import sys

HERE = os.path.dirname(os.path.dirname(os.path.abspath(__file__)))
PY = "/venv/bin/python"

SETUP = (
    "/venv/bin/pip install -q --no-index --find-links /opt/veriftools/wheels hypothesis && "
    "/venv/bin/pip install -q --no-index --find-links /opt/veriftools/wheels --upgrade "
    "--target /verif/.deps sympy mpmath atheris jsonschema"
)

CHECKS = {}


def check(pid, category, text, note, technique, design_ref, engine):
    CHECKS[pid] = {
        "property_id": pid,
        "quick_cmd": "%s -m vf.run %s --tier quick" % (PY, pid),
        "thorough_cmd": "%s -m vf.run %s --tier thorough" % (PY, pid),
        "evidence_file": "/verif/evidence/%s.json" % pid,
        "replay_cmd_template": "%s -m vf.run %s --replay {path}" % (PY, pid),
        "engine": engine,
        "level_claimed": {"category": category, "text": text, "design_ref": design_ref},
        "level_note": note,
        "technique": technique,
    }


exec(open(os.path.join(HERE, "tools", "checks_table.py")).read())

props = [json.loads(l)["id"] for l in open(os.path.join(HERE, "properties.jsonl"))]
NOT_APPLICABLE = [
    {"property_id": p, "reason": NA_REASONS.get(p, "check not built yet in this round; see DESIGN.md section 3")}
    for p in props
    if p not in CHECKS
]

manifest = {
    "version": 1,
    "setup_cmd": SETUP,
    "hooks": {
        "guard": "HYPNOTOAD_VERIF",
        "enable": "no source hooks: checks import /repo's working tree directly (HYPNOTOAD_VERIF=1 is exported by the harness but nothing in /repo reads it)",
        "baseline_off_cmd": "cd /repo && /venv/bin/python -m pytest -ra -q -p no:cacheprovider --timeout=900 --continue-on-collection-errors",
        "source_commits": [],
        "add_only": True,
    },
    "engines": ENGINES,
    "checks": [CHECKS[p] for p in props if p in CHECKS],
    "not_applicable": NOT_APPLICABLE,
    "notes": NOTES,
}
out = os.path.join(HERE, "MANIFEST.json")
with open(out, "w") as f:
    json.dump(manifest, f, indent=1)
try:
    sys.path.append(os.path.join(HERE, ".deps"))
    import jsonschema

    jsonschema.validate(manifest, json.load(open("/root/.vp/MANIFEST.schema.json")))
    print("MANIFEST.json valid; claimed:", [p for p in props if p in CHECKS])
except ImportError:
    print("jsonschema missing; not validated")
