"""Analytic equilibrium families -> arrays exactly as a user would hand them to hypnotoad.

A *descriptor* is plain JSON. `build_inputs(desc)` returns the numeric inputs; nothing in
here imports hypnotoad.
"""

import math

import numpy


# ----------------------------------------------------------------------------------------
# G: Gaussian-sum tokamak family (superset of examples/tokamak/tokamak_example.py)
# ----------------------------------------------------------------------------------------
class GaussSum:
    """psi = s*A*sum_k a_k exp(-((R-r_k)/wR_k)^2 - ((Z-z_k)/wZ_k)^2) with derivatives."""

    def __init__(self, blobs, s=1.0, A=1.0):
        self.blobs = [tuple(map(float, b)) for b in blobs]  # (r, z, wR, wZ, a)
        self.s = float(s)
        self.A = float(A)

    def _terms(self, R, Z):
        R = numpy.asarray(R, dtype=float)
        Z = numpy.asarray(Z, dtype=float)
        for r, z, wr, wz, a in self.blobs:
            x = (R - r) / wr
            y = (Z - z) / wz
            g = self.s * self.A * a * numpy.exp(-x * x - y * y)
            yield g, x, y, wr, wz

    def psi(self, R, Z):
        return sum(g for g, *_ in self._terms(R, Z))

    def dR(self, R, Z):
        return sum(g * (-2 * x / wr) for g, x, y, wr, wz in self._terms(R, Z))

    def dZ(self, R, Z):
        return sum(g * (-2 * y / wz) for g, x, y, wr, wz in self._terms(R, Z))

    def dRR(self, R, Z):
        return sum(g * ((4 * x * x - 2) / wr**2) for g, x, y, wr, wz in self._terms(R, Z))

    def dZZ(self, R, Z):
        return sum(g * ((4 * y * y - 2) / wz**2) for g, x, y, wr, wz in self._terms(R, Z))

    def dRZ(self, R, Z):
        return sum(g * (4 * x * y / (wr * wz)) for g, x, y, wr, wz in self._terms(R, Z))

    def d4max(self):
        """crude bound on fourth derivatives (for interpolation-error bounds)"""
        return sum(abs(self.A * a) * 12.0 / min(wr, wz) ** 4 for r, z, wr, wz, a in self.blobs)

    def newton(self, R, Z, maxit=100, tol=1e-14):
        """Critical point of psi near (R,Z) on the analytic function; None if no convergence."""
        for _ in range(maxit):
            g = numpy.array([float(self.dR(R, Z)), float(self.dZ(R, Z))])
            H = numpy.array(
                [
                    [float(self.dRR(R, Z)), float(self.dRZ(R, Z))],
                    [float(self.dRZ(R, Z)), float(self.dZZ(R, Z))],
                ]
            )
            det = H[0, 0] * H[1, 1] - H[0, 1] ** 2
            if det == 0 or not numpy.isfinite(det):
                return None
            step = numpy.linalg.solve(H, g)
            if not numpy.all(numpy.isfinite(step)):
                return None
            nrm = float(numpy.hypot(*step))
            if nrm > 0.05:
                step *= 0.05 / nrm
            R, Z = R - step[0], Z - step[1]
            if nrm < tol:
                return float(R), float(Z), float(det)
        return None


G_TOPOLOGIES = ("lsn", "usn", "cdn", "udn", "ldn", "udn2", "ldn2")


def g_blobs(desc):
    """Blob list for a G descriptor. jitter entries are relative factors near 1."""
    top = desc["topology"]
    j = desc.get("jitter", {})
    r0 = 1.5 * j.get("r0", 1.0)
    w = 0.3
    wr = w * j.get("wR", 1.0)
    wz = w * j.get("wZ", 1.0)
    sep = 0.6 * j.get("sep", 1.0)
    zc = j.get("zc", 0.0)
    dl = du = 0.0
    d = desc.get("delta", None)
    if top == "udn":
        dl = 0.002 if d is None else d
    elif top == "ldn":
        du = 0.003 if d is None else d
    elif top == "udn2":
        dl = 0.02 if d is None else d
    elif top == "ldn2":
        du = 0.02 if d is None else d
    elif top == "cdn" and d is not None:
        dl, du = (d, 0.0) if d > 0 else (0.0, -d)
    if top == "lsn":
        blobs = [(r0, zc, wr, wz, 1.0), (r0, zc - sep, wr, wz, 1.0)]
    elif top == "usn":
        blobs = [(r0, zc, wr, wz, 1.0), (r0, zc + sep, wr, wz, 1.0)]
    else:
        blobs = [
            (r0, zc, wr, wz, 1.0),
            (r0, zc - sep - dl, wr, wz, 1.0),
            (r0, zc + sep + du, wr, wz, 1.0),
        ]
    # affine map of the whole configuration (see g_geom): R' = R + rshift, Z' = zscale * Z
    rs, zs, _, z0 = g_geom(desc)
    return [(r + rs, z * zs + z0, a, b * zs, c) for r, z, a, b, c in blobs]


def g_geom(desc):
    """(rshift, zscale, rmax_extra, zshift) of a G descriptor. The reference configuration lives in
    the box R in [1, 2 + rmax_extra], Z in [-0.7, 0.7]; psi, box and wall are mapped by
    R' = R + rshift, Z' = zscale * Z + zshift (a 'spherical-tokamak-like' tall, small-R box for
    rshift < 0, zscale > 1; zshift != 0: the midplane is not at Z = 0)."""
    g = desc.get("geom") or {}
    return float(g.get("rshift", 0.0)), float(g.get("zscale", 1.0)), float(g.get("rmax_extra", 0.0)), float(g.get("zshift", 0.0))


def g_box(desc):
    if "box" in desc:
        return list(desc["box"])
    rs, zs, ex, z0 = g_geom(desc)
    return [1.0 + rs, 2.0 + ex + rs, -0.7 * zs + z0, 0.7 * zs + z0]


def g_function(desc):
    return GaussSum(g_blobs(desc), s=desc.get("sign", 1.0), A=desc.get("A", 1.0))


def g_critical(desc):
    """Harness' own O-point and X-points of the analytic function.
    Returns dict(o=(R,Z,psi), x=[(R,Z,psi) sorted by |psi-psi_o|], kind per design)."""
    f = g_function(desc)
    blobs = g_blobs(desc)
    o = f.newton(blobs[0][0], blobs[0][1])
    xs = []
    for b in blobs[1:]:
        guess = (0.5 * (blobs[0][0] + b[0]), 0.5 * (blobs[0][1] + b[1]))
        x = f.newton(*guess)
        if x is not None and x[2] < 0:
            xs.append((x[0], x[1], float(f.psi(x[0], x[1]))))
    po = float(f.psi(o[0], o[1]))
    xs.sort(key=lambda t: abs(t[2] - po))
    return {"o": (o[0], o[1], po), "x": xs}


def cubic(c, t):
    return c[0] * (1.0 + c[1] * t + c[2] * t * t + c[3] * t**3)


def g_inputs(desc):
    f = g_function(desc)
    nR, nZ = desc.get("nR", 65), desc.get("nZ", 65)
    box = g_box(desc)
    R1D = numpy.linspace(box[0], box[1], nR)
    Z1D = numpy.linspace(box[2], box[3], nZ)
    R2, Z2 = numpy.meshgrid(R1D, Z1D, indexing="ij")
    psi2D = f.psi(R2, Z2)
    crit = g_critical(desc)
    psi_o = crit["o"][2]
    psi_x = crit["x"][0][2]
    nf = desc.get("nf", 65)
    ext = desc.get("profile_extent", 1.3)
    psi1D = numpy.linspace(psi_o, psi_o + ext * (psi_x - psi_o), nf)
    psin = numpy.linspace(0.0, ext, nf)
    fc = desc.get("fpol")
    fpol1D = numpy.array([]) if fc is None else cubic(fc, psin)
    pc = desc.get("pres")
    pressure = None if pc is None else cubic(pc, psin)
    wall = g_wall(desc)
    return {
        "R1D": R1D,
        "Z1D": Z1D,
        "psi2D": psi2D,
        "psi1D": psi1D,
        "fpol1D": fpol1D,
        "pressure": pressure,
        "wall": wall,
        "crit": crit,
        "psin_extent": ext,
    }


# ----------------------------------------------------------------------------------------
# walls
# ----------------------------------------------------------------------------------------
def g_wall(desc):
    """Wall of a G descriptor: built in the reference box, then mapped like psi."""
    if "box" in desc:
        return wall_polygon(desc.get("wall", {"kind": "rect"}), desc["box"])
    rs, zs, ex, z0 = g_geom(desc)
    ref = wall_polygon(desc.get("wall", {"kind": "rect"}), [1.0, 2.0 + ex, -0.7, 0.7])
    return [(float(r + rs), float(z * zs + z0)) for r, z in ref]


def wall_polygon(w, box):
    """Wall vertices [(R,Z),...] from a wall descriptor.

    kind 'rect'    : rectangle inset by w['inset'] (default 0.2) - as the shipped example
    kind 'chamfer' : rectangle with the four corners cut by w['cut'][k] (slanted targets)
    kind 'tilt'    : rectangle whose bottom/top edges are tilted by w['tilt'] (rad)
    kind 'baffle'  : rectangle with a thin spike from the outboard side (zb, rt, th): non-convex
    'subdiv' n     : every edge split into n pieces, points displaced along the edge normal
                     by w['bumps'][i] (cycled; metres); star-shapedness about the box centre
                     is preserved for |bump| << inset
    'clockwise'    : orientation of the returned list
    """
    inset = w.get("inset", 0.2)
    rmin, rmax = box[0] + inset, box[1] - inset
    zmin, zmax = box[2] + inset, box[3] - inset
    kind = w.get("kind", "rect")
    if kind == "rect":
        pts = [(rmin, zmin), (rmax, zmin), (rmax, zmax), (rmin, zmax)]
    elif kind == "baffle":
        # rectangle with a thin re-entrant spike ('baffle') reaching in from the outboard side at
        # height zb to the tip radius rt: a non-convex wall, not star-shaped about the box centre
        zb, rt, th = w["zb"], w["rt"], w.get("th", 0.01)
        pts = [(rmin, zmin), (rmax, zmin), (rmax, zb - th), (rt, zb), (rmax, zb + th), (rmax, zmax), (rmin, zmax)]
    elif kind == "chamfer":
        c = w.get("cut", [0.1, 0.1, 0.1, 0.1])
        pts = [
            (rmin + c[0], zmin),
            (rmax - c[1], zmin),
            (rmax, zmin + c[1]),
            (rmax, zmax - c[2]),
            (rmax - c[2], zmax),
            (rmin + c[3], zmax),
            (rmin, zmax - c[3]),
            (rmin, zmin + c[0]),
        ]
    elif kind == "tilt":
        t = w.get("tilt", 0.1)
        h = 0.5 * (rmax - rmin) * math.tan(t)
        pts = [(rmin, zmin - h), (rmax, zmin + h), (rmax, zmax - h), (rmin, zmax + h)]
    else:
        raise ValueError(kind)
    n = int(w.get("subdiv", 1))
    if n > 1:
        bumps = w.get("bumps", [0.0])
        out = []
        k = 0
        for i in range(len(pts)):
            a, b = pts[i], pts[(i + 1) % len(pts)]
            ex, ey = b[0] - a[0], b[1] - a[1]
            L = math.hypot(ex, ey)
            nx_, ny_ = ey / L, -ex / L  # outward normal for anticlockwise polygon
            for m in range(n):
                t = m / n
                p = (a[0] + t * ex, a[1] + t * ey)
                if m > 0:
                    bmp = bumps[k % len(bumps)]
                    k += 1
                    p = (p[0] + bmp * nx_, p[1] + bmp * ny_)
                out.append(p)
        pts = out
    if w.get("clockwise", False):
        pts = pts[::-1]
    s = int(w.get("start", 0)) % len(pts)
    pts = pts[s:] + pts[:s]
    return [(float(r), float(z)) for r, z in pts]


def polygon_area2(pts):
    return sum(
        pts[i][0] * pts[(i + 1) % len(pts)][1] - pts[(i + 1) % len(pts)][0] * pts[i][1]
        for i in range(len(pts))
    )


def anticlockwise(pts):
    """What hypnotoad is documented to store: the input wall, anticlockwise."""
    return list(pts) if polygon_area2(pts) > 0 else list(pts)[::-1]
