"""Exact rational geometry (fractions.Fraction). Floats are rationals, so every predicate
here is exact for float inputs as well as for lattice inputs."""

from fractions import Fraction


def F(x):
    if isinstance(x, Fraction):
        return x
    return Fraction(x)


def P(p):
    return (F(p[0]), F(p[1]))


def sub(a, b):
    return (a[0] - b[0], a[1] - b[1])


def cross(u, v):
    return u[0] * v[1] - u[1] * v[0]


def dot(u, v):
    return u[0] * v[0] + u[1] * v[1]


def sign(x):
    return (x > 0) - (x < 0)


def orient(a, b, c):
    return sign(cross(sub(b, a), sub(c, a)))


def on_segment(p, a, b):
    """p on closed segment ab (exact)."""
    if orient(a, b, p) != 0:
        return False
    return (
        min(a[0], b[0]) <= p[0] <= max(a[0], b[0])
        and min(a[1], b[1]) <= p[1] <= max(a[1], b[1])
    )


def seg_seg(a, b, c, d):
    """Classify closed segments ab and cd.

    Returns (kind, point, (t, u)) with kind in
      'proper'   - interiors cross in exactly one point
      'touch'    - exactly one common point, which is an end point of at least one of them
      'overlap'  - collinear with more than one common point
      'disjoint' - no common point
    point is the exact common point for proper/touch; t, u its parameters on ab, cd.
    """
    a, b, c, d = P(a), P(b), P(c), P(d)
    r = sub(b, a)
    s = sub(d, c)
    den = cross(r, s)
    ca = sub(c, a)
    if den != 0:
        t = cross(ca, s) / den
        u = cross(ca, r) / den
        if 0 <= t <= 1 and 0 <= u <= 1:
            pt = (a[0] + t * r[0], a[1] + t * r[1])
            if 0 < t < 1 and 0 < u < 1:
                return "proper", pt, (t, u)
            return "touch", pt, (t, u)
        return "disjoint", None, (t, u)
    # parallel
    if cross(ca, r) != 0:
        return "disjoint", None, None
    # collinear: project on r
    rr = dot(r, r)
    if rr == 0:
        # ab is a point
        if on_segment(a, c, d):
            return "touch", a, None
        return "disjoint", None, None
    t0 = dot(ca, r) / rr
    t1 = dot(sub(d, a), r) / rr
    lo, hi = min(t0, t1), max(t0, t1)
    lo2, hi2 = max(lo, 0), min(hi, 1)
    if lo2 > hi2:
        return "disjoint", None, None
    if lo2 == hi2:
        pt = (a[0] + lo2 * r[0], a[1] + lo2 * r[1])
        return "touch", pt, None
    return "overlap", None, None


def seg_line_params(a, b, c, d):
    """(t, u, den): parameters of the crossing of the infinite lines, None if parallel."""
    a, b, c, d = P(a), P(b), P(c), P(d)
    r = sub(b, a)
    s = sub(d, c)
    den = cross(r, s)
    if den == 0:
        return None
    ca = sub(c, a)
    return cross(ca, s) / den, cross(ca, r) / den, den


def point_seg_dist2(p, a, b):
    """Exact squared distance from p to closed segment ab."""
    p, a, b = P(p), P(a), P(b)
    m = sub(b, a)
    mm = dot(m, m)
    if mm == 0:
        d = sub(p, a)
        return dot(d, d)
    t = dot(m, sub(p, a)) / mm
    if t < 0:
        t = Fraction(0)
    elif t > 1:
        t = Fraction(1)
    q = (a[0] + t * m[0], a[1] + t * m[1])
    d = sub(p, q)
    return dot(d, d)


def shoelace2(poly):
    """Twice the signed area, positive = anticlockwise (standard convention)."""
    n = len(poly)
    pts = [P(p) for p in poly]
    s = Fraction(0)
    for i in range(n):
        x1, y1 = pts[i]
        x2, y2 = pts[(i + 1) % n]
        s += x1 * y2 - x2 * y1
    return s


def point_in_polygon(p, poly):
    """+1 strictly inside, 0 on the boundary, -1 outside (exact, crossing number)."""
    p = P(p)
    pts = [P(q) for q in poly]
    n = len(pts)
    inside = False
    for i in range(n):
        a, b = pts[i], pts[(i + 1) % n]
        if on_segment(p, a, b):
            return 0
        if (a[1] > p[1]) != (b[1] > p[1]):
            # x coordinate of the edge at height p.y
            xi = a[0] + (p[1] - a[1]) * (b[0] - a[0]) / (b[1] - a[1])
            if xi > p[0]:
                inside = not inside
    return 1 if inside else -1


def point_polyline_dist2(p, closed_pts):
    """Exact squared distance from p to a closed polyline given with first == last or not."""
    best = None
    n = len(closed_pts)
    for i in range(n - 1):
        d = point_seg_dist2(p, closed_pts[i], closed_pts[i + 1])
        if best is None or d < best:
            best = d
    return best


def simple_polygon(poly):
    """True when no two non-adjacent edges of the closed polygon have a common point and
    adjacent edges share only their vertex."""
    n = len(poly)
    for i in range(n):
        a, b = poly[i], poly[(i + 1) % n]
        for j in range(i + 1, n):
            c, d = poly[j], poly[(j + 1) % n]
            kind, pt, _ = seg_seg(a, b, c, d)
            adjacent = (j == i + 1) or (i == 0 and j == n - 1)
            if adjacent:
                if kind == "overlap":
                    return False
                if kind in ("proper",):
                    return False
                if kind == "touch":
                    shared = P(b) if j == i + 1 else P(a)
                    if pt != shared:
                        return False
            else:
                if kind != "disjoint":
                    return False
    return True
