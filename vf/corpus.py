"""Hypothesis strategies producing grid-case descriptors, and the shared corpus.

collect(): descriptors are *generated* by Hypothesis (seeded, database=None, generate phase
only; the test body only records), then a stratifier picks a quota per label so no class
is near zero. Everything is plain JSON.
"""

import json

from .common import derive_seed


def _round(x, n=4):
    return float(round(x, n))


def g_eq_strategy(topologies=None, with_profiles=True):
    from hypothesis import strategies as st

    tops = topologies or ["lsn", "usn", "cdn", "udn", "ldn", "udn2"]

    @st.composite
    def build(draw):
        top = draw(st.sampled_from(tops))
        eq = {"topology": top}
        eq["sign"] = draw(st.sampled_from([1.0, -1.0]))
        eq["A"] = draw(st.sampled_from([1.0, 1.0, 0.3, 3.0, 30.0]))
        if draw(st.booleans()):
            eq["jitter"] = {
                "r0": _round(draw(st.floats(0.98, 1.02))),
                "wR": _round(draw(st.floats(0.92, 1.08))),
                "wZ": _round(draw(st.floats(0.92, 1.08))),
                "sep": _round(draw(st.floats(0.94, 1.06))),
                "zc": _round(draw(st.floats(-0.02, 0.02))),
            }
        if top in ("udn", "ldn") and draw(st.booleans()):
            eq["delta"] = _round(draw(st.sampled_from([0.001, 0.002, 0.003, 0.005])), 4)
        if top == "cdn" and draw(st.booleans()):
            # "connected" double null whose two X-points are at slightly different psi, as every
            # measured equilibrium has: gridded with nx_inter_sep=0 (sign: which X-point is primary)
            eq["delta"] = draw(st.sampled_from([1e-4, -1e-4, 2e-4, -2e-4, 4e-4, -4e-4, 8e-4]))
        # affine variants of the configuration (families.g_geom): a tall box at small R whose upper
        # part lies at Z > max(R) ("spherical-tokamak-like"), a large-R one, a wider box
        geom = draw(st.sampled_from([None, None, None, None, "tall", "far", "mid", "wide"]))
        if geom == "tall":
            eq["geom"] = {"rshift": -0.9, "zscale": 2.5}
        elif geom == "far":
            eq["geom"] = {"rshift": 1.5, "zshift": -1.5}
        elif geom == "mid":
            eq["geom"] = {"rshift": -0.5, "zscale": 1.5, "zshift": 1.2}
        elif geom == "wide":
            eq["geom"] = {"rmax_extra": draw(st.sampled_from([0.2, 0.4]))}
        n = st.sampled_from([49, 57, 65, 65, 81, 97])
        eq["nR"], eq["nZ"] = draw(n), draw(n)
        if with_profiles:
            f0 = draw(st.sampled_from([1.0, -1.0])) * _round(draw(st.floats(0.5, 3.0)), 3)
            if draw(st.integers(0, 5)) < 5:
                eq["fpol"] = [
                    f0,
                    _round(draw(st.floats(-0.15, 0.15)), 3),
                    _round(draw(st.floats(-0.08, 0.08)), 3),
                    _round(draw(st.floats(-0.03, 0.03)), 3),
                ]
            if "fpol" in eq and draw(st.booleans()):
                eq["pres"] = [
                    _round(draw(st.floats(10.0, 5000.0)), 1),
                    _round(draw(st.floats(-0.6, -0.1)), 3),
                    _round(draw(st.floats(-0.05, 0.05)), 3),
                    _round(draw(st.floats(-0.02, 0.02)), 3),
                ]
            eq["profile_extent"] = draw(st.sampled_from([1.0, 1.3, 1.5]))
        eq["wall"] = draw(wall_strategy())
        return eq

    return build()


def wall_strategy():
    from hypothesis import strategies as st

    @st.composite
    def build(draw):
        kind = draw(st.sampled_from(["rect", "rect", "chamfer", "tilt", "baffle"]))
        w = {"kind": kind, "inset": draw(st.sampled_from([0.2, 0.2, 0.18, 0.22]))}
        if kind == "baffle":
            # position relative to the X-point; the tip radius follows from psinorm_sol (place_baffle)
            w["dz"] = _round(draw(st.floats(-0.06, 0.02)), 3)
            w["gap"] = draw(st.sampled_from([0.04, 0.06, 0.1]))
        if kind == "chamfer":
            w["cut"] = [_round(draw(st.floats(0.03, 0.15)), 3) for _ in range(4)]
        if kind == "tilt":
            w["tilt"] = _round(draw(st.floats(-0.12, 0.12)), 3)
        w["clockwise"] = draw(st.booleans())
        if draw(st.integers(0, 3)) == 0:
            w["subdiv"] = draw(st.sampled_from([2, 3, 5]))
            w["bumps"] = [
                _round(draw(st.floats(-0.004, 0.004)), 4) for _ in range(draw(st.integers(1, 4)))
            ]
        w["start"] = draw(st.integers(0, 7))
        return w

    return build()


def g_options_strategy(top, orthogonal=None):
    """Envelope options for a G equilibrium of the given topology."""
    from hypothesis import strategies as st

    @st.composite
    def build(draw):
        o = {}
        orth = draw(st.booleans()) if orthogonal is None else orthogonal
        o["orthogonal"] = orth
        o["psi_interpolation_method"] = draw(st.sampled_from(["spline", "spline", "dct"]))
        o["y_boundary_guards"] = draw(st.sampled_from([0, 1, 1, 2, 3]))
        nxs = st.integers(1, 4)
        o["nx_core"] = draw(nxs)
        o["nx_sol"] = draw(nxs)
        nys = st.one_of(st.integers(3, 6), st.integers(3, 10))
        double = top in ("cdn", "udn", "ldn", "udn2", "ldn2")
        if not double:
            o["ny_inner_divertor"] = draw(nys)
            o["ny_outer_divertor"] = draw(nys)
            o["ny_sol"] = draw(st.one_of(st.integers(3, 8), st.integers(4, 14)))
        else:
            for k in (
                "ny_inner_lower_divertor",
                "ny_inner_upper_divertor",
                "ny_outer_lower_divertor",
                "ny_outer_upper_divertor",
                "ny_inner_sol",
                "ny_outer_sol",
            ):
                o[k] = draw(nys)
            if top in ("udn", "ldn"):
                o["nx_inter_sep"] = draw(st.sampled_from([1, 1, 2]))
            elif top in ("udn2", "ldn2"):
                o["nx_inter_sep"] = draw(st.sampled_from([0, 1]))
        # guard cells extend the legs beyond the targets by whole cells; with few, long cells
        # per leg they would leave the domain of the psi array
        legs = [v for k, v in o.items() if k.startswith("ny_") and "divertor" in k]
        gmax = 1 if min(legs) <= 4 else (2 if min(legs) <= 7 else 3)
        o["y_boundary_guards"] = min(o["y_boundary_guards"], gmax)
        o["psinorm_core"] = _round(draw(st.floats(0.8, 0.95)), 3)
        o["psinorm_sol"] = _round(draw(st.floats(1.06, 1.2)), 3)
        o["psinorm_pf"] = _round(draw(st.floats(0.85, 0.96)), 3)
        if double and draw(st.integers(0, 2)) == 0:
            o["psinorm_sol_inner"] = _round(draw(st.floats(1.04, 1.12)), 3)
        if draw(st.integers(0, 2)) == 0:
            # a separate limit for the upper (and, in single nulls, sometimes the lower) private flux region
            o["psinorm_pf_upper"] = _round(draw(st.floats(0.85, 0.96)), 3)
            if not double and draw(st.booleans()):
                o["psinorm_pf_lower"] = _round(draw(st.floats(0.85, 0.96)), 3)
        o["finecontour_Nfine"] = draw(st.sampled_from([40, 50, 50, 70, 100]))
        o["target_all_poloidal_spacing_length"] = _round(draw(st.floats(0.15, 1.0)), 3)
        o["xpoint_poloidal_spacing_length"] = _round(draw(st.floats(0.03, 0.15)), 3)
        o["psi_spacing_separatrix_multiplier"] = draw(
            st.sampled_from([1.0, 0.5, 0.3, 0.7, 0.9])
        )
        o["poloidal_spacing_method"] = draw(st.sampled_from(["sqrt", "sqrt", "monotonic", "linear"]))
        if draw(st.integers(0, 3)) == 0:
            o["refine_atol"] = draw(st.sampled_from([1e-8, 1e-7, 1e-6]))
        if draw(st.integers(0, 3)) == 0:
            o["refine_methods"] = draw(
                st.sampled_from(
                    [
                        ["integrate+newton", "line"],
                        ["integrate+newton", "integrate"],
                        ["newton", "line"],
                        ["line", "integrate"],
                        ["integrate", "line"],
                    ]
                )
            )
        if draw(st.integers(0, 4)) == 0:
            o["follow_perpendicular_rtol"] = draw(st.sampled_from([2e-8, 1e-9, 1e-7]))
            o["follow_perpendicular_atol"] = draw(st.sampled_from([1e-8, 1e-10, 1e-7]))
        if double and draw(st.integers(0, 3)) == 0:
            o["start_at_upper_outer"] = True
        if draw(st.integers(0, 4)) == 0:
            # per-leg target spacing instead of one value for all legs
            legs_ = ["inner_lower", "outer_lower", "inner_upper", "outer_upper"] if double else (
                ["inner_upper", "outer_upper"] if top == "usn" else ["inner_lower", "outer_lower"])
            for leg in legs_:
                if draw(st.booleans()):
                    o["target_%s_poloidal_spacing_length" % leg] = _round(draw(st.floats(0.15, 1.0)), 3)
        if draw(st.integers(0, 5)) == 0:
            o["cap_Bp_ylow_xpoint"] = True  # documented 'fudge' of Bpxy_ylow next to X-points
        if orth and draw(st.integers(0, 3)) == 0:
            o["curvature_type"] = "curl(b/B) with x-y derivatives"
        if not orth:
            if draw(st.booleans()):
                o["nonorthogonal_spacing_method"] = draw(
                    st.sampled_from(["combined", "poloidal_orthogonal_combined", "orthogonal"])
                )
            if draw(st.booleans()):
                o["nonorthogonal_xpoint_poloidal_spacing_length"] = _round(
                    draw(st.floats(0.02, 0.2)), 3
                )
                o["nonorthogonal_target_all_poloidal_spacing_length"] = _round(
                    draw(st.floats(0.1, 1.0)), 3
                )
            if draw(st.integers(0, 2)) == 0:
                o["nonorthogonal_radial_range_power"] = draw(st.sampled_from([1.0, 2.0, 3.0]))
        return o

    return build()


def g_case_strategy(topologies=None, orthogonal=None):
    from hypothesis import strategies as st

    @st.composite
    def build(draw):
        eq = draw(g_eq_strategy(topologies))
        opts = draw(g_options_strategy(eq["topology"], orthogonal))
        if opts["psi_interpolation_method"] == "dct":
            # the cosine series costs O(nR*nZ) per evaluation
            eq["nR"], eq["nZ"] = min(eq["nR"], 65), min(eq["nZ"], 65)
        if eq["wall"]["kind"] == "baffle":
            place_baffle(eq, opts)
        return {"family": "G", "eq": eq, "options": opts, "entry": "api"}

    return build()


def place_baffle(eq, opts):
    """Complete a 'baffle' wall descriptor: a thin spike from the outboard wall at the height of an
    X-point, its tip `gap` (in normalised psi) outside the gridded SOL. The box is widened so that
    the box centre (hypnotoad's reference point for inside/outside) does not see the outer leg
    directly. Falls back to a plain rectangle when there is no room. Pure function of (eq, opts)."""
    from . import families

    w = eq["wall"]
    g = dict(eq.get("geom") or {})
    if not g.get("rmax_extra"):
        g["rmax_extra"] = 0.3
        eq["geom"] = g
    ref = {k: v for k, v in eq.items() if k not in ("geom", "box")}  # reference coordinates
    f = families.g_function(ref)
    crit = families.g_critical(ref)
    po, px = crit["o"][2], crit["x"][0][2]
    xp = min(crit["x"], key=lambda x: x[1]) if eq["topology"] != "usn" else max(crit["x"], key=lambda x: x[1])
    zb = xp[1] + (w.pop("dz") if eq["topology"] != "usn" else -w.pop("dz"))
    want = max(opts.get("psinorm_sol", 1.1), 1.0) + w.pop("gap")
    rmax = 2.0 + g["rmax_extra"] - w.get("inset", 0.2)
    r = xp[0] + 0.02
    rt = None
    while r < rmax - 0.05:
        if (float(f.psi(r, zb)) - po) / (px - po) >= want:
            rt = r
            break
        r += 0.005
    if rt is None:
        w["kind"] = "rect"
        return
    w.update(zb=_round(zb, 4), rt=_round(rt, 4), th=0.01)


def c_case_strategy():
    from hypothesis import strategies as st

    @st.composite
    def build(draw):
        r_in = _round(draw(st.floats(0.05, 0.25)), 3)
        r_out = _round(r_in + draw(st.floats(0.05, 0.3)), 3)
        R0 = _round(max(1.0, 1.6 * r_out) * draw(st.floats(1.0, 2.5)), 3)
        q = [_round(draw(st.floats(1.1, 5.0)), 3)]
        nq = draw(st.sampled_from([1, 2, 2]))
        for _ in range(nq - 1):
            q.append(_round(draw(st.floats(0.5, 8.0)), 3))
        o = {
            "R0": R0,
            "B0": _round(draw(st.floats(0.5, 3.0)), 3),
            "r_inner": r_in,
            "r_outer": r_out,
            "nx": draw(st.integers(2, 6)),
            "ny": draw(st.integers(4, 16)),
            "limiter": draw(st.integers(0, 5)) == 0,
            "q_coefficients": q,
            "finecontour_Nfine": draw(st.sampled_from([50, 100, 200])),
            "orthogonal": True,
        }
        if o["limiter"]:
            o["y_boundary_guards"] = draw(st.sampled_from([0, 1, 2]))
        if draw(st.integers(0, 2)) == 0:
            o["curvature_type"] = "curl(b/B) with x-y derivatives"
        return {"family": "C", "eq": {}, "options": o, "entry": "api"}

    return build()


TORPEX_COILS = [
    {"R": 0.7667, "Z": 0.5262, "I": 7200.0},
    {"R": 0.7667, "Z": -0.5262, "I": 7200.0},
    {"R": 1.381, "Z": 0.5262, "I": -504.0},
    {"R": 1.381, "Z": -0.5262, "I": -504.0},
]


def t_case_strategy():
    """Isolated X-point (TORPEX) family: the shipped coil set with all currents scaled by a
    common factor f (psi scales with f, so the shipped psi ranges are scaled too) and the two
    pairs perturbed by up to 3%."""
    from hypothesis import strategies as st

    @st.composite
    def build(draw):
        f = draw(st.sampled_from([1.0, 0.9, 1.1, 2.0]))
        e1 = 1.0 + draw(st.sampled_from([0.0, 0.02, -0.02]))
        coils = []
        for k, c in enumerate(TORPEX_COILS):
            coils.append({"R": c["R"], "Z": c["Z"], "I": c["I"] * f * (e1 if k >= 2 else 1.0)})
        orth = draw(st.booleans())
        o = {
            "orthogonal": orth,
            "nx_core": draw(st.integers(1, 3)),
            "nx_sol": draw(st.integers(1, 3)),
            "psi_core": -1.55e-3 * f,
            "psi_sol": -1.47e-3 * f,
            "psi_sol_inner": -1.44e-3 * f,
            "psi_spacing_separatrix_multiplier": draw(st.sampled_from([0.2, 0.5, 1.0])),
            "xpoint_poloidal_spacing_length": 0.15,
            "y_boundary_guards": draw(st.sampled_from([0, 1])),
            "refine_width": 4.0e-2,
            "geometry_rtol": 1.0e-8,
            "finecontour_Nfine": draw(st.sampled_from([20, 40])),
        }
        for k in ("ny_inner_lower_divertor", "ny_inner_upper_divertor", "ny_outer_upper_divertor", "ny_outer_lower_divertor"):
            o[k] = draw(st.integers(3, 6))
        if not orth:
            o.update({
                "nonorthogonal_xpoint_poloidal_spacing_length": 0.3,
                "nonorthogonal_xpoint_poloidal_spacing_range": 4.0e-2,
                "nonorthogonal_xpoint_poloidal_spacing_range_inner": 3.0e-1,
                "nonorthogonal_xpoint_poloidal_spacing_range_outer": 3.0e-1,
                "nonorthogonal_radial_range_power": 1.0,
                "nonorthogonal_target_poloidal_spacing_length": 0.3,
                "nonorthogonal_target_poloidal_spacing_range": 4.0e-2,
                "nonorthogonal_target_poloidal_spacing_range_inner": 1.0e-1,
                "nonorthogonal_target_poloidal_spacing_range_outer": 1.0e-1,
            })
        return {"family": "T", "entry": "api", "eq": {"equilibOptions": {"Coils": coils, "Bt_axis": 77.0e-3}}, "options": o}

    return build()


def label(desc):
    """Stratification label of a descriptor."""
    o = desc["options"]
    if desc["family"] == "G":
        top = desc["eq"]["topology"]
        return "G/%s/%s/%s/s%+d/g%d" % (
            top,
            "orth" if o.get("orthogonal", True) else "nonorth",
            o.get("psi_interpolation_method", "spline"),
            int(desc["eq"].get("sign", 1)),
            min(o.get("y_boundary_guards", 0), 1),
        )
    if desc["family"] == "C":
        return "C/%s/q%d" % ("limiter" if o.get("limiter") else "core", len(o["q_coefficients"]))
    if desc["family"] == "T":
        return "T/%s/g%d" % ("orth" if o.get("orthogonal", True) else "nonorth", min(o.get("y_boundary_guards", 0), 1))
    return desc["family"]


def c_label(desc):
    return "C/q%d" % len(desc["options"]["q_coefficients"])


def coarse_label(desc):
    o = desc["options"]
    if desc["family"] == "G":
        top = desc["eq"]["topology"]
        if top == "cdn" and desc["eq"].get("delta"):
            top = "cdn~"  # nearly connected: two X-points at slightly different psi
        gm = desc["eq"].get("geom") or {}
        if 0.7 * gm.get("zscale", 1.0) + gm.get("zshift", 0.0) > 2.0 + gm.get("rmax_extra", 0.0) + gm.get("rshift", 0.0):
            top = "tall"  # part of the grid at Z > max(R)
        elif desc["eq"].get("wall", {}).get("kind") == "baffle":
            top = "baffle"  # non-convex wall
        return "G/%s/%s" % (top, "orth" if o.get("orthogonal", True) else "nonorth")
    return label(desc)


def collect(strategy, n, seed, oversample=6, keyfn=None, reserves=None):
    """Draw n*oversample descriptors with Hypothesis and pick n by round-robin over labels.

    With reserves=k returns (picked, {label: [up to k further descriptors of that label]})."""
    import hypothesis
    from hypothesis import HealthCheck, Phase, given, settings

    from .common import pin_hypothesis

    pin_hypothesis()
    keyfn = keyfn or coarse_label
    got = []

    def body(d):
        got.append(d)

    test = given(strategy)(body)
    test = settings(
        max_examples=n * oversample,
        database=None,
        deadline=None,
        phases=[Phase.generate],
        suppress_health_check=list(HealthCheck),
    )(test)
    test = hypothesis.seed(derive_seed("corpus", seed))(test)
    test()
    # de-duplicate, keep generation order
    seen = set()
    uniq = []
    for d in got:
        k = json.dumps(d, sort_keys=True)
        if k not in seen:
            seen.add(k)
            uniq.append(d)
    import hashlib

    # Hypothesis emits its simplest examples first; order within a label by hash so that the
    # selection is not biased towards them (still a pure function of the seed)
    uniq.sort(key=lambda d: hashlib.sha256((str(seed) + json.dumps(d, sort_keys=True)).encode()).hexdigest())
    buckets = {}
    for d in uniq:
        buckets.setdefault(keyfn(d), []).append(d)
    out = []
    keys = sorted(buckets)
    i = 0
    while len(out) < n and any(buckets.values()):
        k = keys[i % len(keys)]
        if buckets[k]:
            out.append(buckets[k].pop(0))
        i += 1
    if reserves is not None:
        return out, {k: v[:reserves] for k, v in buckets.items()}
    return out


def base_corpus(tier, seed):
    """The shared corpus of complete-grid descriptors (tokamak G family, circular, TORPEX).

    Two (thorough: fourteen) generated descriptors per stratum; hypnotoad refuses a good part of the
    generated configurations (non-orthogonal single nulls, dct double nulls, ...), so strata whose
    members were all refused are topped up from the same generated pool (next in hash order, at most
    eight more per stratum) until one member yields a grid. A pure function of (this module,
    families.py, the /repo sources, tier, seed); memoised on disk in the grid cache directory."""
    import hashlib
    import os

    from . import gridlab

    here = os.path.dirname(os.path.abspath(__file__))
    h = hashlib.sha256()
    for fn in ("corpus.py", "families.py", "gridworker.py"):
        with open(os.path.join(here, fn), "rb") as f:
            h.update(f.read())
    h.update(gridlab.repo_hash().encode())
    path = os.path.join(gridlab.CACHE, "corpus_%s_%s_%d.json" % (h.hexdigest()[:16], tier, seed))
    try:
        with open(path) as f:
            return json.load(f)
    except (OSError, ValueError):
        pass
    out = _base_corpus(tier, seed)
    try:
        os.makedirs(gridlab.CACHE, exist_ok=True)
        tmp = path + ".%d.tmp" % os.getpid()
        with open(tmp, "w") as f:
            json.dump(out, f)
        os.replace(tmp, path)
    except OSError:
        pass
    return json.loads(json.dumps(out))


def _base_corpus(tier, seed):
    from . import gridlab

    quick = tier == "quick"
    n_g = 36 if quick else 252
    n_c = 4 if quick else 30
    # 18 G labels: draw many more descriptors than needed so that every label fills its quota
    g, pool = collect(g_case_strategy(), n_g, seed, oversample=30 if quick else 12, reserves=8)
    timeout = 240 if quick else 900
    have = {}
    for c in gridlab.run_cases(g, timeout=timeout):
        k = coarse_label(c.desc)
        have[k] = have.get(k, 0) + (1 if c.outcome == "grid" else 0)
    for _ in range(4):
        extra = []
        for k in sorted(pool):
            if have.get(k, 0) == 0:
                extra += pool[k][:2]
                del pool[k][:2]
        if not extra:
            break
        for c in gridlab.run_cases(extra, timeout=timeout):
            k = coarse_label(c.desc)
            have[k] = have.get(k, 0) + (1 if c.outcome == "grid" else 0)
        g += extra
    c = collect(c_case_strategy(), n_c, seed + 1, keyfn=c_label)
    t = collect(t_case_strategy(), 2 if quick else 12, seed + 2, keyfn=label)
    return g + c + t
