"""Reference traces along flux surfaces for a grid case (shared by C05, C06, C10, C11).

For every region and every radial row (cell-centre rows: points ylow[j], centre[j] alternating;
x-face rows: corners[j], xlow[j]) the harness follows the reference flux surface from each point
to the next and records arc length, the integral of nu = Bt/(R|Bp|), the turning of the tangent,
the miss distance, and error estimators for a trapezoid rule of spacing h = L/Nfine.
Results are cached beside the grid (they depend only on the grid and the descriptor)."""

import math
import os
import pickle

import numpy
from scipy.integrate import solve_ivp

from . import gridcheck

VERSION = 7


def _trace_segment(ref, nu, pa, pb, h):
    """Follow the flux surface from pa towards pb; stop at closest approach.
    Returns dict(arc, int_nu, miss, turning, trap_err, numax_prime)."""
    pa = numpy.asarray(pa, dtype=float)
    pb = numpy.asarray(pb, dtype=float)
    chord = float(numpy.hypot(*(pb - pa)))
    if chord == 0.0:
        return dict(arc=0.0, int_nu=0.0, miss=0.0, turning=0.0, trap_err=0.0, dnu=0.0, chord_err=0.0, dir=0.0)
    gR = float(ref.dR(pa[0], pa[1]))
    gZ = float(ref.dZ(pa[0], pa[1]))
    t0 = numpy.array([-gZ, gR])
    direction = 1.0 if float(numpy.dot(t0, pb - pa)) >= 0 else -1.0

    def rhs(s, y):
        a = float(ref.dR(y[0], y[1]))
        b = float(ref.dZ(y[0], y[1]))
        g = math.hypot(a, b)
        return [direction * (-b) / g, direction * a / g, float(nu(y[0], y[1]))]

    def closest(s, y):
        a = float(ref.dR(y[0], y[1]))
        b = float(ref.dZ(y[0], y[1]))
        g = math.hypot(a, b)
        return (y[0] - pb[0]) * direction * (-b) / g + (y[1] - pb[1]) * direction * a / g

    closest.terminal = True
    closest.direction = 1.0
    sol = solve_ivp(
        rhs, (0.0, 4.0 * chord + 1e-9), [pa[0], pa[1], 0.0], method="DOP853", rtol=1e-11, atol=1e-13,
        events=closest, dense_output=True,
    )
    if sol.status != 1 or len(sol.t_events[0]) == 0:
        return None
    s_end = float(sol.t_events[0][0])
    ye = sol.y_events[0][0]
    miss = float(math.hypot(ye[0] - pb[0], ye[1] - pb[1]))
    # samples along the path at spacing <= h/2 for the error estimators
    n = max(4, 2 * int(math.ceil(s_end / max(h, 1e-12))))
    n = min(n, 400)
    ss = numpy.linspace(0.0, s_end, n + 1)
    Y = sol.sol(ss)
    nus = numpy.array([float(nu(Y[0, k], Y[1, k])) for k in range(n + 1)])
    ds = ss[1] - ss[0]
    trap_f = float(numpy.sum(0.5 * (nus[1:] + nus[:-1]) * ds))
    trap_c = float(numpy.sum(0.5 * (nus[2::2] + nus[:-2:2]) * 2 * ds)) if n % 2 == 0 else trap_f
    # error of a trapezoid rule with spacing h on this stretch ~ (h/(2 ds))^2 x |T_2ds - T_ds| x 4/3
    scale = (h / (2 * ds)) ** 2 if ds > 0 else 1.0
    trap_err = abs(trap_c - trap_f) * 4.0 / 3.0 * max(1.0, scale)
    dnu = float(numpy.max(numpy.abs(numpy.diff(nus)))) / ds if ds > 0 else 0.0
    tang = numpy.array([[-float(ref.dZ(Y[0, k], Y[1, k])), float(ref.dR(Y[0, k], Y[1, k]))] for k in range(n + 1)])
    tang /= numpy.linalg.norm(tang, axis=1, keepdims=True)
    cosang = numpy.clip(numpy.sum(tang[1:] * tang[:-1], axis=1), -1, 1)
    dth = numpy.arccos(cosang)
    turning = float(numpy.sum(dth))
    # chord-sum error of a polyline with vertices every h along this stretch: each chord is
    # short of its arc by ~ theta^2 h/24 where theta is the turning within the chord; worst
    # alignment = sliding window of length h over the samples
    w = max(1, int(round(h / ds))) if ds > 0 else 1
    csum = numpy.concatenate([[0.0], numpy.cumsum(dth)])
    if len(dth) >= w:
        win = csum[w:] - csum[:-w]
    else:
        win = numpy.array([turning])
    # sum over a tiling of windows ~ (1/w) x sum over all sliding windows
    chord_err = float(numpy.sum(win**2) / w * min(h, s_end) / 24.0) if len(win) else 0.0
    chord_err = max(chord_err, float(numpy.max(win) ** 2 * min(h, s_end) / 24.0))
    # direction of travel along the surface, as a statement about the *grid*: only reported when the
    # chord pa -> pb is clearly aligned with the surface tangent at both ends (a cell that wraps round a
    # sharp bend next to an X-point says nothing about the order of its two ends)
    ch = (pb - pa) / chord
    t1 = numpy.array([-float(ref.dZ(pb[0], pb[1])), float(ref.dR(pb[0], pb[1]))])
    c0 = float(numpy.dot(t0, ch)) / max(float(numpy.hypot(*t0)), 1e-300)
    c1 = float(numpy.dot(t1, ch)) / max(float(numpy.hypot(*t1)), 1e-300)
    reliable = (c0 * c1 > 0) and min(abs(c0), abs(c1)) > 0.3
    return dict(arc=s_end, int_nu=float(ye[2]), miss=miss, turning=turning, trap_err=trap_err, dnu=dnu, chord_err=chord_err,
                dir=direction if reliable else 0.0)


def traces_for(case):
    path = os.path.join(case.path, "traces_v%d.pkl" % VERSION)
    if os.path.exists(path):
        try:
            with open(path, "rb") as f:
                return pickle.load(f)
        except Exception:  # noqa: BLE001
            pass
    side = case.side
    cref = gridcheck.CaseRef(case.desc)
    ref = cref.ref

    def nu(R, Z):
        psi = ref.psi(R, Z)
        bt = float(cref.fpol(numpy.asarray(psi))) / R
        bp = math.hypot(float(ref.dZ(R, Z)), float(ref.dR(R, Z))) / R
        return bt / (R * bp)

    nfine = float(side["mesh_options"].get("finecontour_Nfine", 100))
    out = {}
    for rid, reg in side["regions"].items():
        f = reg["fields"]
        length = float(numpy.max(numpy.sum(f["hy"]["centre"], axis=1)) * case.nc["dy"][0, 0]) if "hy" in f else 1.0
        h = length / nfine
        rows = {}
        for rowkind, (faces, mids) in {"centre": ("ylow", "centre"), "xlow": ("corners", "xlow")}.items():
            Rf, Zf = f["Rxy"][faces].copy(), f["Zxy"][faces].copy()
            Rm, Zm = f["Rxy"][mids], f["Zxy"][mids]
            nrow, ny = Rm.shape
            # distances are measured along the region's own contours: use their own end points
            # (the stored face on a join is the neighbour's point; the gap is reported by C05)
            if "contour_last" in reg:
                sl = slice(1, None, 2) if rowkind == "centre" else slice(0, None, 2)
                own_first, own_last = reg["contour_first"][sl], reg["contour_last"][sl]
                Rf[:, 0], Zf[:, 0] = own_first[:, 0], own_first[:, 1]
                Rf[:, -1], Zf[:, -1] = own_last[:, 0], own_last[:, 1]
            keys = ("arc", "int_nu", "miss", "turning", "trap_err", "dnu", "chord_err", "dir")
            A = {k: numpy.full((nrow, 2 * ny), numpy.nan) for k in keys}
            for i in range(nrow):
                for j in range(ny):
                    for half, (pa, pb) in enumerate(
                        (((Rf[i, j], Zf[i, j]), (Rm[i, j], Zm[i, j])), ((Rm[i, j], Zm[i, j]), (Rf[i, j + 1], Zf[i, j + 1])))
                    ):
                        t = _trace_segment(ref, nu, pa, pb, h)
                        if t is not None:
                            for k in keys:
                                A[k][i, 2 * j + half] = t[k]
            rows[rowkind] = A
        out[rid] = {"h": h, "length": length, "rows": rows}
    try:
        with open(path, "wb") as f:
            pickle.dump(out, f)
    except OSError:
        pass
    return out


def chain_order(side):
    """y-chains: lists of region ids in increasing y, one list per radial segment chain."""
    conn = side["connections"]
    regs = side["regions"]
    chains = []
    seen = set()
    # start from regions without a lower neighbour, then periodic ones (lowest id first)
    starts = [rid for rid in sorted(regs) if conn[rid].get("lower") is None]
    for rid in starts + sorted(regs):
        if rid in seen:
            continue
        chain = []
        cur = rid
        while cur is not None and cur not in seen:
            seen.add(cur)
            chain.append(cur)
            cur = conn[cur].get("upper")
        periodic = cur is not None and cur == chain[0]
        chains.append((chain, periodic))
    return chains
