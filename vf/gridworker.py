"""Single-case worker: descriptor JSON -> hypnotoad -> grid.nc + sidecar.pkl + status.json.

Run as:  python -m vf.gridworker <case dir>      (case dir contains desc.json)
Always exits 0 after writing status.json ('grid' | 'raised'); a crash of the worker itself
leaves no status.json and is reported by gridlab as a harness error.
"""

import gc
import io
import json
import os
import pickle
import sys
import time
import traceback
import warnings

FIELDS = [
    "Rxy",
    "Zxy",
    "psixy",
    "dx",
    "dy",
    "hy",
    "poloidal_distance",
    "Brxy",
    "Bzxy",
    "Bpxy",
    "Btxy",
    "Bxy",
    "dphidy",
    "zShift",
    "ShiftTorsion",
    "g11",
    "g22",
    "g33",
    "g12",
    "g13",
    "g23",
    "J",
    "g_11",
    "g_22",
    "g_33",
    "g_12",
    "g_13",
    "g_23",
    "curl_bOverB_x",
    "curl_bOverB_y",
    "curl_bOverB_z",
    "bxcvx",
    "bxcvy",
    "bxcvz",
    "pressure",
    "cosBeta",
    "sinBeta",
    "tanBeta",
]


def mla_to_dict(a):
    out = {}
    for loc in ("centre", "xlow", "ylow", "corners"):
        arr = getattr(a, "_%s_array" % loc, None)
        if arr is not None:
            out[loc] = arr.copy()
    return out


def pt(p):
    return None if p is None else (float(p.R), float(p.Z))


def collect_sidecar(eq, mesh):
    import numpy

    side = {"regions": {}, "eq_regions": {}}
    for rid, reg in mesh.regions.items():
        r = {
            "name": reg.name,
            "eq_name": reg.equilibriumRegion.name,
            "nx": reg.nx,
            "ny": reg.ny,
            "ny_noguards": reg.ny_noguards,
            "psi_vals": numpy.array(reg.psi_vals, dtype=float),
            "radialIndex": reg.radialIndex,
            "yGroupIndex": reg.yGroupIndex,
            "connections": dict(reg.connections),
            "bpsign": getattr(reg, "bpsign", None),
            "fields": {},
            "xp_start": [pt(p) for p in reg.equilibriumRegion.xPointsAtStart],
            "xp_end": [pt(p) for p in reg.equilibriumRegion.xPointsAtEnd],
            "kind": reg.equilibriumRegion.kind,
            "separatrix_radial_index": reg.equilibriumRegion.separatrix_radial_index,
        }
        for name in FIELDS:
            if hasattr(reg, name):
                v = getattr(reg, name)
                if hasattr(v, "_centre_array"):
                    r["fields"][name] = mla_to_dict(v)
        for name in ("ShiftAngle", "total_poloidal_distance"):
            if hasattr(reg, name):
                r["fields"][name] = mla_to_dict(getattr(reg, name))
        if hasattr(reg, "penalty_mask"):
            r["penalty_mask"] = numpy.array(reg.penalty_mask)
        # contour bookkeeping needed by C05/C10/C11
        try:
            # own end points of every contour (the region arrays hold the *neighbour's* points on
            # a shared y-face after getRZBoundary)
            r["contour_first"] = numpy.array([[c[0].R, c[0].Z] for c in reg.contours])
            r["contour_last"] = numpy.array([[c[-1].R, c[-1].Z] for c in reg.contours])
            r["contour_startInd"] = [c.startInd for c in reg.contours]
            r["contour_endInd"] = [c.endInd for c in reg.contours]
            r["contour_len"] = [len(c) for c in reg.contours]
        except Exception:  # noqa: BLE001
            pass
        side["regions"][rid] = r
    if hasattr(mesh, "region_indices"):
        side["region_indices"] = {
            rid: (
                (idx[0].start, idx[0].stop),
                (idx[1].start, idx[1].stop),
            )
            for rid, idx in mesh.region_indices.items()
        }
    side["connections"] = {k: dict(v) for k, v in mesh.connections.items()}
    for name, er in eq.regions.items():
        side["eq_regions"][name] = {
            "kind": er.kind,
            "nx": list(er.nx),
            "ny_noguards": er.ny_noguards,
            "psi_vals": [numpy.array(p, dtype=float) for p in er.psi_vals],
            "connections": [dict(c) for c in er.connections],
            "separatrix_radial_index": er.separatrix_radial_index,
            "points": [(float(p.R), float(p.Z)) for p in er.points],
            "startInd": er.startInd,
            "endInd": er.endInd,
        }
    side["x_points"] = [pt(p) for p in getattr(eq, "x_points", [])]
    side["psi_sep"] = [float(p) for p in getattr(eq, "psi_sep", [])]
    side["o_point"] = pt(getattr(eq, "o_point", None))
    for k in ("psi_axis", "psi_bdry", "Bt_axis", "psi_core", "psi_sol", "psi_sol_inner",
              "psi_pf_lower", "psi_pf_upper", "double_null_type", "Rmin", "Rmax", "Zmin", "Zmax"):
        if hasattr(eq, k):
            v = getattr(eq, k)
            side[k] = v if isinstance(v, str) else (None if v is None else float(v))
    if hasattr(eq, "wall"):
        side["wall"] = [pt(p) for p in eq.wall]
    side["eq_options"] = dict(eq.user_options)
    side["nonorth_options"] = dict(eq.nonorthogonal_options)
    side["mesh_options"] = dict(mesh.user_options)
    for k in ("nx", "ny", "ny_noguards", "ny_core", "dy_scalar", "y_regions_noguards"):
        if hasattr(mesh, k):
            v = getattr(mesh, k)
            side["mesh_" + k] = list(v) if isinstance(v, (list, tuple)) else v
    return side


def copy_deep(x):
    import copy

    return copy.deepcopy(x)


def build_equilibrium(desc, workdir):
    """Returns (eq, options, extra) built the way a user would."""
    fam = desc["family"]
    options = dict(desc.get("options", {}))
    if desc.get("numpy_options"):
        # a caller that computed its settings with numpy: same values, numpy.float64 objects
        import numpy

        options = {k: (numpy.float64(v) if isinstance(v, float) else v) for k, v in options.items()}
    if fam == "G":
        from vf.families import g_inputs
        from hypnotoad.cases import tokamak

        inp = g_inputs(desc["eq"])
        entry = desc.get("entry", "api")
        if entry in ("api", "api-inconsistent", "regrid-history"):
            eq = tokamak.TokamakEquilibrium(
                inp["R1D"].copy(),
                inp["Z1D"].copy(),
                inp["psi2D"].copy(),
                inp["psi1D"].copy(),
                inp["fpol1D"].copy(),
                pressure=None if inp["pressure"] is None else inp["pressure"].copy(),
                wall=list(inp["wall"]),
                settings=options,
                nonorthogonal_settings=options,
            )
            return eq, options
        raise ValueError("entry %r handled by run_cli" % entry)
    if fam == "C":
        from hypnotoad.cases.circular import CircularEquilibrium

        eq = CircularEquilibrium(settings=options, nonorthogonal_settings=options)
        return eq, options
    if fam == "T":
        from hypnotoad.cases import torpex

        eq = torpex.TORPEXMagneticField(copy_deep(desc["eq"]["equilibOptions"]), options)
        # as hypnotoad.cases.torpex.createMesh does
        options = dict(options)
        options.update(eq.user_options)
        eq.makeRegions()
        return eq, options
    raise ValueError("unknown family %r" % fam)


def write_geqdsk_for(desc, path):
    """geqdsk file of a G-family equilibrium, written by the harness' reference writer."""
    from vf.families import g_inputs
    from vf.props.c17 import ref_write

    import numpy

    inp = g_inputs(desc["eq"])
    R, Z = inp["R1D"], inp["Z1D"]
    nx, ny = len(R), len(Z)
    crit = inp["crit"]
    # the format defines the profile grid as linspace(simagx, sibdry, nx): normalised psi 0..1
    ext = 1.0
    t = numpy.linspace(0.0, 1.0, nx)
    fc = desc["eq"].get("fpol") or [1.0, 0.0, 0.0, 0.0]
    fpol = fc[0] * (1.0 + fc[1] * t + fc[2] * t * t + fc[3] * t**3)
    pc = desc["eq"].get("pres")
    pres = [0.0] * nx if pc is None else pc[0] * (1.0 + pc[1] * t + pc[2] * t * t + pc[3] * t**3)
    psi_o, psi_x = crit["o"][2], crit["x"][0][2]
    d = {
        "nx": nx, "ny": ny,
        "rdim": float(R[-1] - R[0]), "zdim": float(Z[-1] - Z[0]), "rcentr": float(0.5 * (R[0] + R[-1])),
        "rleft": float(R[0]), "zmid": float(0.5 * (Z[0] + Z[-1])),
        "rmagx": crit["o"][0], "zmagx": crit["o"][1],
        "simagx": psi_o, "sibdry": psi_o + ext * (psi_x - psi_o),
        "bcentr": float(fpol[0]) / crit["o"][0], "cpasma": 1.0e5,
        "fpol": [float(v) for v in fpol], "pres": [float(v) for v in pres], "qpsi": [1.0] * nx,
        "psi": [[float(inp["psi2D"][i, j]) for j in range(ny)] for i in range(nx)],
        "rlim": [p[0] for p in inp["wall"]], "zlim": [p[1] for p in inp["wall"]],
    }
    text = ref_write(d, {"plus": False, "echar": "E", "chunk": 5, "sep": ""})
    with open(path, "w") as f:
        f.write(text)
    return text


def run_cli(desc, casedir):
    """Entry points exactly as a user runs them: scripts' main() with sys.argv, in casedir."""
    import runpy
    import shutil

    import yaml

    entry = desc["entry"]
    old_argv, old_cwd = sys.argv, os.getcwd()
    os.chdir(casedir)
    out = None
    try:
        if entry == "example-script":
            src = os.path.join(os.environ.get("VF_REPO", "/repo"), "examples", "tokamak")
            for fn in os.listdir(src):
                if fn.endswith((".yaml", ".py")):
                    shutil.copy(os.path.join(src, fn), casedir)
            sys.argv = ["tokamak_example.py", desc["geometry"], "--no-plot", "--nx", str(desc.get("nx", 65)), "--ny", str(desc.get("ny", 65))]
            runpy.run_path(os.path.join(casedir, "tokamak_example.py"), run_name="__main__")
            out = "bout.grd.nc"
        elif entry == "geqdsk-cli":
            write_geqdsk_for(desc, os.path.join(casedir, "input.geqdsk"))
            if "yaml_file" in desc:
                shutil.copy(os.path.join(os.environ.get("VF_REPO", "/repo"), desc["yaml_file"]), os.path.join(casedir, "opts.yaml"))
                if desc.get("yaml_overrides"):
                    with open(os.path.join(casedir, "opts.yaml")) as f:
                        o = yaml.safe_load(f)
                    o.update(desc["yaml_overrides"])
                    with open(os.path.join(casedir, "opts.yaml"), "w") as f:
                        yaml.safe_dump(o, f)
            else:
                with open(os.path.join(casedir, "opts.yaml"), "w") as f:
                    yaml.safe_dump(desc.get("options", {}), f)
            from hypnotoad.scripts import hypnotoad_geqdsk

            sys.argv = ["hypnotoad-geqdsk", "input.geqdsk", "opts.yaml"]
            hypnotoad_geqdsk.main()
            with open(os.path.join(casedir, "opts.yaml")) as f:
                o = yaml.safe_load(f) or {}
            out = o.get("grid_file", "bout.grd.nc")
        elif entry == "torpex-cli":
            shutil.copy(os.path.join(os.environ.get("VF_REPO", "/repo"), desc["yaml_file"]), os.path.join(casedir, "torpex.yaml"))
            from hypnotoad.scripts import hypnotoad_torpex

            sys.argv = ["hypnotoad-torpex", "torpex.yaml", "--noplot"]
            hypnotoad_torpex.main()
            out = "torpex.grd.nc"
        elif entry == "circular-cli":
            with open(os.path.join(casedir, "opts.yaml"), "w") as f:
                yaml.safe_dump(desc.get("options", {}), f)
            from hypnotoad.scripts import hypnotoad_circular

            sys.argv = ["hypnotoad-circular", "opts.yaml"]
            hypnotoad_circular.main()
            out = "bout.grd.nc"
        elif entry in ("roundtrip-cli", "roundtrip-api-cli"):
            # geqdsk + yaml -> hypnotoad-geqdsk -> hypnotoad-recreate-inputs -> hypnotoad-geqdsk
            # (roundtrip-api-cli: the first grid is built through the Python API from the same
            # geqdsk file and option dictionary, as a script would)
            text = write_geqdsk_for(desc, os.path.join(casedir, "input.geqdsk"))
            with open(os.path.join(casedir, "opts.yaml"), "w") as f:
                yaml.safe_dump(desc.get("options", {}), f)
            from hypnotoad.scripts import hypnotoad_geqdsk, hypnotoad_recreate_inputs

            if entry == "roundtrip-cli":
                sys.argv = ["hypnotoad-geqdsk", "input.geqdsk", "opts.yaml"]
                hypnotoad_geqdsk.main()
                os.replace("bout.grd.nc", "grid.nc")
            else:
                from hypnotoad.cases import tokamak as tokamak_
                from hypnotoad.core.mesh import BoutMesh as BoutMesh_

                opts_ = dict(desc.get("options", {}))
                with open("input.geqdsk", "rt") as fh:
                    eq_ = tokamak_.read_geqdsk(fh, settings=opts_, nonorthogonal_settings=opts_)
                mesh_ = BoutMesh_(eq_, opts_)
                mesh_.calculateRZ()
                mesh_.geometry()
                mesh_.writeGridfile("grid.nc")
                del mesh_, eq_
            for fn in ("re.geqdsk", "re.yaml"):
                if os.path.exists(fn):
                    os.unlink(fn)
            sys.argv = ["hypnotoad-recreate-inputs", "grid.nc", "-g", "re.geqdsk", "-y", "re.yaml"]
            hypnotoad_recreate_inputs.main()
            summary = {"geqdsk_identical": open("re.geqdsk", newline="").read() == open("input.geqdsk", newline="").read()}
            try:
                with open("re.yaml") as f:
                    o2 = yaml.safe_load(f)
                summary["yaml_safe_loadable"] = isinstance(o2, dict)
                summary["yaml_keys"] = sorted(o2) if isinstance(o2, dict) else []
            except Exception as e:  # noqa: BLE001
                summary["yaml_safe_loadable"] = False
                summary["yaml_error"] = repr(e)[:300]
                summary["yaml_keys"] = []
            from hypnotoad.cases import tokamak
            from hypnotoad.core.mesh import BoutMesh

            want = set(tokamak.TokamakEquilibrium.user_options_factory.defaults) | set(
                tokamak.TokamakEquilibrium.nonorthogonal_options_factory.defaults) | set(BoutMesh.user_options_factory.defaults)
            summary["missing_option_keys"] = sorted(want - set(summary["yaml_keys"]))
            if summary["yaml_safe_loadable"]:
                try:
                    sys.argv = ["hypnotoad-geqdsk", "re.geqdsk", "re.yaml"]
                    hypnotoad_geqdsk.main()
                    os.replace(o2.get("grid_file", "bout.grd.nc") if isinstance(o2, dict) else "bout.grd.nc", "grid2.nc")
                    summary["second_run"] = "grid"
                except BaseException as e:  # noqa: BLE001
                    if isinstance(e, (KeyboardInterrupt, SystemExit)):
                        raise
                    summary["second_run"] = "raised: %r" % (e,)
            with open("roundtrip.json", "w") as f:
                json.dump(summary, f)
            out = "grid.nc"
        else:
            raise ValueError("unknown entry %r" % entry)
        if out and os.path.exists(os.path.join(casedir, out)) and out != "grid.nc":
            os.replace(os.path.join(casedir, out), os.path.join(casedir, "grid.nc"))
    finally:
        sys.argv = old_argv
        os.chdir(old_cwd)


def main(casedir):
    t0 = time.time()
    os.environ["MPLBACKEND"] = "Agg"
    with open(os.path.join(casedir, "desc.json")) as f:
        desc = json.load(f)
    status = {"outcome": None}
    log = io.StringIO()
    real_out, real_err = sys.stdout, sys.stderr
    sys.stdout = sys.stderr = log
    # hypnotoad reports some conditions (e.g. a FineContour whose iteration did not converge) only as
    # warnings and carries on: keep which ones occurred, for the oracles
    seen = {}

    def _record(message, category, filename, lineno, file=None, line=None):
        import re

        key = "%s: %s" % (category.__name__, re.sub(r"[-+]?\d[\d.eE+-]*", "#", str(message))[:100])
        seen[key] = seen.get(key, 0) + 1
        m = re.search(r"FineContour: maximum iterations .* exceeded with ds_error ([-+0-9.eE]+|nan|inf)", str(message))
        if m:
            try:
                v = float(m.group(1))
            except ValueError:
                v = float("inf")
            if not v <= status.get("finecontour_max_ds_error", 0.0):
                status["finecontour_max_ds_error"] = v if v == v else 1e300

    warnings.simplefilter("always")
    warnings.showwarning = _record
    status["warnings"] = seen
    eq = mesh = None
    try:
        try:
            import numpy

            numpy.seterr(all="ignore")
            from hypnotoad.core.mesh import BoutMesh

            if desc.get("entry", "api") not in ("api", "api-inconsistent", "regrid-history"):
                run_cli(desc, casedir)
                if not os.path.exists(os.path.join(casedir, "grid.nc")):
                    raise RuntimeError("entry point returned without writing a grid file")
                with open(os.path.join(casedir, "sidecar.pkl"), "wb") as f:
                    pickle.dump({"cli": True}, f)
                status["outcome"] = "grid"
                return 0
            eq, options = build_equilibrium(desc, casedir)
            if desc.get("entry") == "api-inconsistent":
                options = dict(options)
                options.update(desc["mesh_option_change"])
            if desc.get("stop_after") == "equilibrium":
                side = {"eq_regions": {}}
                for name, er in eq.regions.items():
                    side["eq_regions"][name] = {
                        "kind": er.kind,
                        "nx": list(er.nx),
                        "ny_noguards": er.ny_noguards,
                        "psi_vals": [numpy.array(p, dtype=float) for p in er.psi_vals],
                    }
                side["psi_sep"] = [float(p) for p in getattr(eq, "psi_sep", [])]
                side["x_points"] = [pt(p) for p in getattr(eq, "x_points", [])]
                for k in ("psi_axis", "psi_bdry"):
                    if hasattr(eq, k):
                        side[k] = float(getattr(eq, k))
                with open(os.path.join(casedir, "sidecar.pkl"), "wb") as f:
                    pickle.dump(side, f)
                status["outcome"] = "equilibrium"
            else:
                mesh = BoutMesh(eq, options)
                if desc.get("entry") == "regrid-history":
                    # what the GUI does: Run -> calculateRZ; Regrid -> redistributePoints +
                    # calculateRZ (with the complete option dictionary); Write Grid -> geometry
                    mesh.calculateRZ()

                    def ends():
                        # region ends: X-point joins and targets (not the outer faces of the
                        # boundary guard cells, whose size follows the target spacing)
                        g = int(mesh.user_options.y_boundary_guards)
                        out = {}
                        for rid, reg in mesh.regions.items():
                            kind = reg.equilibriumRegion.kind
                            lo = g if (kind.startswith("wall") and reg.connections["lower"] is None) else 0
                            hi = -1 - g if (kind.endswith("wall") and reg.connections["upper"] is None) else -1
                            out[rid] = [numpy.array(a, copy=True) for a in (
                                reg.Rxy.ylow[:, lo], reg.Zxy.ylow[:, lo], reg.Rxy.ylow[:, hi], reg.Zxy.ylow[:, hi],
                                reg.Rxy.corners[:, lo], reg.Zxy.corners[:, lo], reg.Rxy.corners[:, hi], reg.Zxy.corners[:, hi])]
                        return out

                    moved = []
                    current = dict(options)
                    for k, step in enumerate(desc["history"]):
                        before = ends()
                        if step.get("reset"):
                            # back to the defaults of every nonorthogonal_* setting
                            current = {k: v for k, v in current.items() if not k.startswith("nonorthogonal_")}
                        current.update(step["set"])
                        if step.get("geometry_before"):
                            mesh.geometry()
                        if step.get("style") == "minimal":
                            # a script handing over only the non-orthogonal settings it wants
                            # (redistributePoints replaces the whole set: absent = default)
                            mesh.redistributePoints({k: v for k, v in current.items() if k.startswith("nonorthogonal_")})
                        else:
                            # the GUI hands over its complete option dictionary
                            mesh.redistributePoints(dict(current))
                        mesh.calculateRZ()
                        after = ends()
                        worst = 0.0
                        for rid in before:
                            for a, b in zip(before[rid], after[rid]):
                                worst = max(worst, float(numpy.abs(a - b).max()))
                        moved.append(worst)
                    status["region_end_movement"] = moved
                    status["mesh_options_after"] = {k: (v if isinstance(v, (int, float, str, bool, type(None))) else repr(v)) for k, v in dict(mesh.user_options).items()}
                mesh.geometry()
                status["t_geometry"] = time.time() - t0
                mesh.writeGridfile(os.path.join(casedir, "grid.nc"))
                side = collect_sidecar(eq, mesh)
                with open(os.path.join(casedir, "sidecar.pkl"), "wb") as f:
                    pickle.dump(side, f)
                status["outcome"] = "grid"
        except BaseException as e:  # noqa: BLE001 - FunctionTimedOut derives from BaseException
            if isinstance(e, (KeyboardInterrupt, SystemExit)):
                raise
            status["outcome"] = "raised"
            status["exc_type"] = type(e).__name__
            status["exc_msg"] = str(e)[:2000]
            tb = traceback.extract_tb(e.__traceback__)
            frames = [fr for fr in tb if "/hypnotoad/" in fr.filename]
            fr = frames[-1] if frames else tb[-1]
            status["exc_at"] = "%s:%d" % (os.path.basename(fr.filename), fr.lineno)
            status["traceback"] = traceback.format_exc()[-4000:]
    finally:
        sys.stdout, sys.stderr = real_out, real_err
        status["wall_s"] = time.time() - t0
        with open(os.path.join(casedir, "log.txt"), "w") as f:
            f.write(log.getvalue()[-20000:])
        with open(os.path.join(casedir, "status.json"), "w") as f:
            json.dump(status, f)
        # make sure ParallelMap workers are terminated
        del eq, mesh
        gc.collect()
    return 0


if __name__ == "__main__":
    sys.exit(main(sys.argv[1]))
