"""gridlab: descriptors -> complete grids, executed in parallel single-case subprocesses,
cached by (descriptor, content hash of /repo sources).

collect - execute - check - shrink (see DESIGN.md section 2.1)
"""

import concurrent.futures
import hashlib
import json
import os
import pickle
import shutil
import signal
import subprocess
import sys
import time

from .common import REPO, VERIF, jsonable

CACHE = os.environ.get("VF_CACHE", os.path.join(VERIF, ".cache"))
CACHE_LIMIT_BYTES = 6 * 1024**3
_REPO_HASH = None


def repo_hash():
    """Content hash of everything in /repo that can influence a grid."""
    global _REPO_HASH
    if _REPO_HASH is not None:
        return _REPO_HASH
    h = hashlib.sha256()
    roots = [os.path.join(REPO, "hypnotoad"), os.path.join(REPO, "examples")]
    files = []
    for root in roots:
        for dp, dn, fn in os.walk(root):
            dn[:] = sorted(d for d in dn if d not in ("__pycache__", "test_suite", "gui"))
            for f in sorted(fn):
                if f.endswith((".py", ".yaml", ".yml")):
                    files.append(os.path.join(dp, f))
    for f in sorted(os.listdir(REPO)):
        if f.endswith((".yaml", ".yml")):
            files.append(os.path.join(REPO, f))
    # the worker and families define what a descriptor means
    for f in ("gridworker.py", "families.py"):
        files.append(os.path.join(VERIF, "vf", f))
    for path in files:
        h.update(path.encode())
        with open(path, "rb") as fh:
            h.update(fh.read())
    _REPO_HASH = h.hexdigest()[:20]
    return _REPO_HASH


def desc_key(desc):
    s = json.dumps(jsonable(desc), sort_keys=True)
    return hashlib.sha256((s + "|" + repo_hash()).encode()).hexdigest()[:24]


def desc_id(desc):
    return hashlib.sha256(json.dumps(jsonable(desc), sort_keys=True).encode()).hexdigest()[:16]


class GridCase:
    def __init__(self, desc, path, status, cached):
        self.desc = desc
        self.path = path
        self.status = status
        self.cached = cached
        self._nc = None
        self._side = None

    @property
    def outcome(self):
        return self.status.get("outcome")

    @property
    def nc(self):
        """dict name -> numpy array / scalar / str read from the grid file."""
        if self._nc is None:
            self._nc = read_grid(os.path.join(self.path, "grid.nc"))
        return self._nc

    @property
    def side(self):
        if self._side is None:
            with open(os.path.join(self.path, "sidecar.pkl"), "rb") as f:
                self._side = pickle.load(f)
        return self._side

    def attrs(self):
        import netCDF4

        with netCDF4.Dataset(os.path.join(self.path, "grid.nc")) as ds:
            return {k: ds.getncattr(k) for k in ds.ncattrs()}


def read_grid(path):
    import netCDF4
    import numpy

    out = {}
    with netCDF4.Dataset(path) as ds:
        ds.set_auto_mask(False)
        for name, var in ds.variables.items():
            v = var[...]
            if var.dtype is str:
                v = v.item() if hasattr(v, "item") and getattr(v, "shape", None) == () else v
                if isinstance(v, numpy.ndarray):
                    v = "".join(str(x) for x in v.ravel().tolist())
            elif var.dtype.kind in ("S", "U"):
                try:
                    v = netCDF4.chartostring(v)
                    v = str(v) if v.shape == () else "".join(v.tolist())
                except Exception:  # noqa: BLE001
                    pass
            elif isinstance(v, numpy.ndarray) and v.shape == ():
                v = v.item()
            out[name] = v
        out["__attrs__"] = {k: ds.getncattr(k) for k in ds.ncattrs()}
    return out


def _run_one(desc, timeout):
    key = desc_key(desc)
    path = os.path.join(CACHE, key[:2], key)
    st = os.path.join(path, "status.json")
    if os.path.exists(st):
        try:
            with open(st) as f:
                status = json.load(f)
            os.utime(path)
            return GridCase(desc, path, status, True)
        except Exception:  # noqa: BLE001
            shutil.rmtree(path, ignore_errors=True)
    os.makedirs(path, exist_ok=True)
    with open(os.path.join(path, "desc.json"), "w") as f:
        json.dump(jsonable(desc), f, sort_keys=True)
    env = dict(os.environ)
    env["MPLBACKEND"] = "Agg"
    env["OMP_NUM_THREADS"] = "1"
    env["PYTHONHASHSEED"] = "0"
    t0 = time.time()
    proc = subprocess.Popen(
        [sys.executable, "-m", "vf.gridworker", path],
        cwd=VERIF,
        env=env,
        stdout=subprocess.DEVNULL,
        stderr=subprocess.PIPE,
        start_new_session=True,
    )
    try:
        _, err = proc.communicate(timeout=timeout)
        timed_out = False
    except subprocess.TimeoutExpired:
        timed_out = True
        err = b""
    finally:
        try:
            os.killpg(proc.pid, signal.SIGKILL)
        except (ProcessLookupError, PermissionError):
            pass
        try:
            proc.wait(timeout=10)
        except Exception:  # noqa: BLE001
            pass
    if timed_out:
        status = {"outcome": "timeout", "wall_s": time.time() - t0}
        with open(st, "w") as f:
            json.dump(status, f)
        return GridCase(desc, path, status, False)
    if not os.path.exists(st):
        status = {
            "outcome": "worker-crashed",
            "stderr": err.decode(errors="replace")[-3000:],
            "rc": proc.returncode,
        }
        # not cached: a worker crash is a harness problem
        shutil.rmtree(path, ignore_errors=True)
        return GridCase(desc, path, status, False)
    with open(st) as f:
        status = json.load(f)
    return GridCase(desc, path, status, False)


def run_cases(descs, timeout=600, workers=None, progress=None):
    """Execute all descriptors (cache aware). Returns list of GridCase in input order."""
    os.makedirs(CACHE, exist_ok=True)
    if workers is None:
        workers = min(16, os.cpu_count() or 1)
    results = [None] * len(descs)
    # identical descriptors share one cache directory: execute each distinct one once
    first = {}
    for i, d in enumerate(descs):
        first.setdefault(desc_key(d), i)
    uniq = sorted(first.values())
    with concurrent.futures.ThreadPoolExecutor(workers) as ex:
        futs = {ex.submit(_run_one, descs[i], timeout): i for i in uniq}
        done = 0
        for fut in concurrent.futures.as_completed(futs):
            i = futs[fut]
            results[i] = fut.result()
            done += 1
            if progress and done % 8 == 0:
                print("  gridlab: %d/%d cases" % (done, len(uniq)), flush=True)
    for i, d in enumerate(descs):
        if results[i] is None:
            r = results[first[desc_key(d)]]
            results[i] = GridCase(d, r.path, r.status, r.cached)
    prune_cache()
    crashed = [r for r in results if r.outcome == "worker-crashed"]
    if crashed:
        from .unitlab import HarnessError

        raise HarnessError(
            "grid worker crashed for %d cases, e.g.: %s"
            % (len(crashed), crashed[0].status.get("stderr", "")[-1500:])
        )
    return results


def prune_cache():
    try:
        entries = []
        total = 0
        for sub in os.listdir(CACHE):
            sp = os.path.join(CACHE, sub)
            if not os.path.isdir(sp):
                continue
            for key in os.listdir(sp):
                p = os.path.join(sp, key)
                size = sum(
                    os.path.getsize(os.path.join(p, f))
                    for f in os.listdir(p)
                    if os.path.isfile(os.path.join(p, f))
                )
                entries.append((os.path.getmtime(p), size, p))
                total += size
        if total <= CACHE_LIMIT_BYTES:
            return
        entries.sort()
        for _, size, p in entries:
            shutil.rmtree(p, ignore_errors=True)
            total -= size
            if total <= 0.7 * CACHE_LIMIT_BYTES:
                break
    except OSError:
        pass
