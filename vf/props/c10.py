"""C10 - poloidal spacing: end-point exact, monotone, resolution-consistent."""

import copy
import warnings

import numpy

from .. import corpus, gridlab
from ..common import ShardResult
from ..unitlab import hyp_search, quiet_stdio, run_shards

LEVEL = "exploration"
RULE = (
    "unit stratum: Hypothesis parameters of the poloidal spacing constructors on an EquilibriumRegion "
    "built like the pinned tests' fixture: L in [1e-3, 1e2], N in 2..400, N_norm in [N, 40N], end "
    "spacing parameters over three decades, kinds wall.X / X.wall / X.X / wall.wall, methods sqrt / "
    "monotonic / linear, directly and through getSfuncFixedSpacing (so the run-time monotonic guard is "
    "part of the unit); per-leg stratum: four different target settings for the four legs, leg L must "
    "behave as if the *_all_* settings had L's values (parameters and spacing function compared). "
    "non-trivial = at least one end spacing parameter constrains the function; "
    "grid stratum: ny -> 2ny derived descriptors on orthogonal grids keep every original y-face."
)


def region(kind, ny, ny_total, options, name=None, nonorthogonal=None):
    from hypnotoad.core.equilibrium import Equilibrium, EquilibriumRegion, Point2D

    class MiniEq(Equilibrium):
        def __init__(self, settings):
            self.user_options = Equilibrium.user_options_factory.create(settings)
            super().__init__(dict(nonorthogonal or {}))

    with quiet_stdio(), warnings.catch_warnings():
        warnings.simplefilter("ignore")
        eq = MiniEq(options)
        eq.psi = lambda R, Z: R - Z
        n = 11
        pts = [Point2D(i * 3.0 / (n - 1.0), i * 3.0 / (n - 1.0)) for i in range(n)]
        reg = EquilibriumRegion(
            equilibrium=eq,
            name=name or ("inner_lower_divertor" if "wall" in kind else "core"),
            nSegments=1,
            nx=[1],
            ny=ny,
            kind=kind,
            ny_total=ny_total,
            points=pts,
            psival=0.0,
            Rrange=(-float("inf"), float("inf")),
            Zrange=(-float("inf"), float("inf")),
        )
    return reg


def richardson(g, e0):
    """limit of g(e) as e -> 0 from three values; returns (estimate, error estimate)"""
    a, b, c = g(e0), g(e0 / 2), g(e0 / 4)
    est = c + (c - b)
    return est, abs(c - b) * 2 + abs((c - b) - (b - a) / 2)


def check_direct(c):
    fails = []
    L, N, Nn = c["L"], c["N"], c["N_norm"]
    reg = region("X.X", max(1, N // 2), Nn, {})
    m = c["method"]

    def fail(bucket, detail):
        if not any(x[0] == bucket for x in fails):
            fails.append((bucket + "/" + m, detail, {"method": m}))

    with numpy.errstate(all="ignore"), warnings.catch_warnings():
        warnings.simplefilter("ignore")
        try:
            if m == "sqrt":
                kw = {k: c[k] for k in ("b_lower", "a_lower", "b_upper", "a_upper") if c.get(k) is not None}
                f = reg.getSqrtPoloidalDistanceFunc(L, float(N), float(Nn), **kw)
            elif m == "monotonic":
                f = reg.getMonotonicPoloidalDistanceFunc(L, float(N), float(Nn), d_lower=c["d_lower"], d_upper=c["d_upper"])
            else:
                f = reg.getLinearPoloidalDistanceFunc(L, float(N))
        except ValueError as e:
            c["_refused"] = True
            return []
        s0, sN = float(f(0.0)), float(f(float(N)))
        if abs(s0) > 1e-9 * L or abs(sN - L) > 1e-9 * L:
            fail("C10/end-values", {"s(0)": s0, "s(N)": sN, "L": L})
        idx = numpy.arange(0.0, N + 1.0)
        vals = numpy.asarray(f(idx), dtype=float)
        mono = bool(numpy.all(numpy.diff(vals) > 0))
        c["_mono"] = mono
        # end gradients in units of the normalised index iN = i/N_norm
        if m == "monotonic" and mono:
            for end, want, x0, sgn in (("lower", c["d_lower"], 0.0, 1.0), ("upper", c["d_upper"], float(N), -1.0)):
                g = lambda e: sgn * (float(f(x0 + sgn * e)) - float(f(x0))) / (e / Nn)  # noqa: E731
                est, err = richardson(g, 1e-3 * N)
                if abs(est - want) > 4 * err + 1e-5 * abs(want) + 1e-9 * L * Nn / N:
                    fail("C10/end-gradient-" + end, {"requested": want, "measured": est, "err_est": err})
        if m == "sqrt" and mono:
            for end, a, b, x0, sgn in (
                ("lower", c.get("a_lower", c.get("b_lower")), c.get("b_lower"), 0.0, 1.0),
                ("upper", c.get("a_upper", c.get("b_upper")), c.get("b_upper"), float(N), -1.0),
            ):
                if b is None:
                    continue
                if a is None:
                    a = b

                def g(e, a=a, x0=x0, sgn=sgn):
                    eN = e / Nn
                    ds = sgn * (float(f(x0 + sgn * e)) - float(f(x0)))
                    return (ds - 2.0 * a * numpy.sqrt(eN)) / eN

                est, err = richardson(g, 1e-4 * N)
                if abs(est - b) > 6 * err + 1e-3 * (abs(b) + abs(a)) + 1e-9 * L * Nn / N:
                    fail("C10/sqrt-end-behaviour-" + end, {"b_requested": b, "a": a, "measured_b": est, "err_est": err})
        # resolution consistency
        try:
            if m == "sqrt":
                f2 = reg.getSqrtPoloidalDistanceFunc(L, float(2 * N), float(2 * Nn), **kw)
            elif m == "monotonic":
                f2 = reg.getMonotonicPoloidalDistanceFunc(L, float(2 * N), float(2 * Nn), d_lower=c["d_lower"], d_upper=c["d_upper"])
            else:
                f2 = reg.getLinearPoloidalDistanceFunc(L, float(2 * N))
            fine = numpy.asarray(f2(2.0 * idx), dtype=float)
            e = float(numpy.max(numpy.abs(fine - vals)))
            if e > 1e-10 * L:
                fail("C10/resolution-consistency", {"max_abs_diff_over_L": e / L})
        except ValueError:
            fail("C10/resolution-consistency-refused", {})
    return fails


def check_xpoint_continuity(c):
    """Two regions with different L, N but the same a, N_norm: s1(i)/s2(i) -> 1 as i -> 0."""
    reg = region("X.X", 4, c["N_norm"], {})
    fails = []
    with numpy.errstate(all="ignore"), warnings.catch_warnings():
        warnings.simplefilter("ignore")
        try:
            f1 = reg.getSqrtPoloidalDistanceFunc(c["L1"], float(c["N1"]), float(c["N_norm"]), b_lower=0.0, a_lower=c["a"], b_upper=c["b1"])
            f2 = reg.getSqrtPoloidalDistanceFunc(c["L2"], float(c["N2"]), float(c["N_norm"]), b_lower=0.0, a_lower=c["a"], b_upper=c["b2"])
        except ValueError:
            c["_refused"] = True
            return []
        r = [float(f1(e)) / float(f2(e)) for e in (1e-2, 1e-3, 1e-4)]
        if not (abs(r[2] - 1.0) < 0.02 and abs(r[2] - 1.0) <= abs(r[0] - 1.0) + 1e-6):
            fails.append(("C10/xpoint-join-spacing-ratio", {"ratios": r}, {}))
    return fails


def check_fixed(c):
    """Through getSfuncFixedSpacing: ValueError or a valid spacing function."""
    opts = {
        "orthogonal": True,
        "poloidal_spacing_method": c["method"],
        "y_boundary_guards": c["guards"],
        "xpoint_poloidal_spacing_length": c["x_len"],
        "target_all_poloidal_spacing_length": c["t_len"],
        "N_norm_prefactor": c["prefactor"],
    }
    ny = c["ny"]
    reg = region(c["kind"], ny, c["ny_total"], opts)
    N = 2 * ny
    L = c["L"]
    fails = []
    with quiet_stdio(), numpy.errstate(all="ignore"), warnings.catch_warnings():
        warnings.simplefilter("ignore")
        import matplotlib.pyplot as plt

        saved = plt.show, plt.figure
        plt.show = lambda *a, **k: None
        try:
            try:
                f = reg.getSfuncFixedSpacing(N + 1, L)
            except ValueError:
                c["_refused"] = True
                return []
            finally:
                plt.show, plt.figure = saved
                plt.close("all")
        except Exception as e:  # noqa: BLE001
            return [("C10/fixed/raised-unexpected/" + c["method"], {"exc": repr(e)[:300]}, {})]
        lo, hi = -reg.extend_lower, N + reg.extend_upper
        idx = numpy.arange(float(lo), float(hi) + 1.0)
        vals = numpy.asarray(f(idx), dtype=float)
        i0 = -lo
        if abs(vals[i0]) > 1e-9 * L or abs(vals[i0 + N] - L) > 1e-9 * L:
            fails.append(("C10/fixed/end-values/" + c["method"], {"s(0)": float(vals[i0]), "s(N)": float(vals[i0 + N]), "L": L}, {}))
        d = numpy.diff(vals)
        if not numpy.all(numpy.isfinite(vals)):
            fails.append(("C10/fixed/non-finite/" + c["method"], {}, {}))
        elif not numpy.all(d > 0):
            k = int(numpy.argmin(d))
            fails.append(
                (
                    "C10/fixed/accepted-non-increasing/" + c["method"],
                    {"index": float(idx[k]), "s": float(vals[k]), "s_next": float(vals[k + 1]), "range": [lo, hi]},
                    {},
                )
            )
        c["_ext"] = (reg.extend_lower, reg.extend_upper)
    return fails


def check_end_kinds(c):
    """The end behaviour belongs to the kind of end (X-point or wall), not to its position:
    for the same options, length and sizes, every X-point end of wall.X / X.wall / X.X regions
    must start with the same spacing (in index units), likewise every wall end of wall.X /
    X.wall / wall.wall - this is what makes the spacing continuous across X-point joins."""
    opts = {
        "orthogonal": True,
        "poloidal_spacing_method": c["method"],
        "y_boundary_guards": 0,
        "xpoint_poloidal_spacing_length": c["x_len"],
        "target_all_poloidal_spacing_length": c["t_len"],
    }
    if c.get("nonorth_lengths"):
        opts["nonorthogonal_xpoint_poloidal_spacing_length"] = c["nonorth_lengths"][0]
        opts["nonorthogonal_target_all_poloidal_spacing_length"] = c["nonorth_lengths"][1]
    ny, N, L = c["ny"], 2 * c["ny"], c["L"]
    ends = {"X": [], "wall": []}
    e = 1e-3
    with quiet_stdio(), numpy.errstate(all="ignore"), warnings.catch_warnings():
        warnings.simplefilter("ignore")
        import matplotlib.pyplot as plt

        saved = plt.show
        plt.show = lambda *a, **k: None
        try:
            for kind in ("wall.X", "X.wall", "X.X", "wall.wall"):
                reg = region(kind, ny, c["ny_total"], opts)
                try:
                    f = reg.getSfuncFixedSpacing(N + 1, L)
                except ValueError:
                    continue
                # one-sided derivatives at the two ends, extrapolated to step 0 (the spacing may grow
                # by two orders of magnitude within a few indices)
                lo = richardson(lambda h: (float(f(h)) - float(f(0.0))) / h, e)[0]
                hi = richardson(lambda h: (float(f(float(N))) - float(f(N - h))) / h, e)[0]
                k_lo, k_hi = kind.split(".")
                ends[k_lo].append((kind + ":lower", lo))
                ends[k_hi].append((kind + ":upper", hi))
        finally:
            plt.show = saved
            plt.close("all")
    fails = []
    c["_n_ends"] = len(ends["X"]) + len(ends["wall"])
    for typ, vals in ends.items():
        if len(vals) < 2:
            continue
        v = numpy.array([x[1] for x in vals])
        if v.min() <= 0:
            continue
        spread = float(v.max() / v.min())
        if spread > 1.05:
            fails.append(
                (
                    "C10/end-spacing-depends-on-position-not-kind/%s-ends/%s" % (typ, c["method"]),
                    {"initial_spacing_per_index": {k: float(x) for k, x in vals}, "ratio_max_min": spread},
                    {},
                )
            )
    return fails


LEGS = ("inner_lower", "inner_upper", "outer_upper", "outer_lower")
LEG_PARAMS = (
    ("user", "target_%s_poloidal_spacing_length"),
    ("nonorth", "nonorthogonal_target_%s_poloidal_spacing_length"),
    ("nonorth", "nonorthogonal_target_%s_poloidal_spacing_range"),
    ("nonorth", "nonorthogonal_target_%s_poloidal_spacing_range_inner"),
    ("nonorth", "nonorthogonal_target_%s_poloidal_spacing_range_outer"),
)


def check_per_leg(c):
    """Every divertor leg uses the target settings requested for *that* leg: with four different
    per-leg values, the parameters and the spacing function of leg L must be those obtained when the
    `*_all_*` settings are given L's values (metamorphic: no knowledge of the normalisation needed)."""
    base = {"orthogonal": c["orthogonal"], "poloidal_spacing_method": c["method"], "y_boundary_guards": 0,
            "xpoint_poloidal_spacing_length": c["x_len"]}
    per_user, per_non, all_user, all_non = dict(base), {}, dict(base), {}
    for which, pat in LEG_PARAMS:
        for leg in LEGS:
            (per_user if which == "user" else per_non)[pat % leg] = c["values"][pat % "X"][leg]
        (all_user if which == "user" else all_non)[pat % "all"] = c["values"][pat % "X"][c["leg"]]
    ny, N, L = c["ny"], 2 * c["ny"], c["L"]
    fails = []
    with quiet_stdio(), numpy.errstate(all="ignore"), warnings.catch_warnings():
        warnings.simplefilter("ignore")
        import matplotlib.pyplot as plt

        saved = plt.show
        plt.show = lambda *a, **k: None
        try:
            name = c["leg"] + "_divertor"
            ra = region(c["kind"], ny, c["ny_total"], per_user, name=name, nonorthogonal=per_non)
            rb = region(c["kind"], ny, c["ny_total"], all_user, name=name, nonorthogonal=all_non)
            sa, sb = ra.getSpacings(), rb.getSpacings()
            diff = sorted(k for k in sa if sa[k] != sb.get(k))
            if diff:
                fails.append(
                    ("C10/per-leg-target-setting-not-used/" + c["leg"], {"parameters": {k: [sa[k], sb.get(k)] for k in diff[:6]}, "kind": c["kind"]}, {})
                )
            try:
                fa = ra.getSfuncFixedSpacing(N + 1, L)
                fb = rb.getSfuncFixedSpacing(N + 1, L)
            except ValueError:
                c["_refused"] = True
                return fails
            idx = numpy.linspace(0.0, float(N), 4 * N + 1)
            va, vb = numpy.asarray(fa(idx), dtype=float), numpy.asarray(fb(idx), dtype=float)
            if not numpy.allclose(va, vb, rtol=1e-12, atol=1e-12 * L):
                fails.append(
                    ("C10/per-leg-spacing-function-differs/" + c["leg"], {"max_abs_diff": float(numpy.max(numpy.abs(va - vb))), "L": L, "kind": c["kind"], "method": c["method"]}, {})
                )
        finally:
            plt.show = saved
            plt.close("all")
    return fails


def strategies():
    from hypothesis import strategies as st

    lg = lambda a, b: st.floats(a, b).map(lambda x: float("%.4g" % (10.0**x)))  # noqa: E731

    @st.composite
    def direct(draw):
        N = draw(st.one_of(st.integers(2, 40), st.integers(2, 400)))
        Nn = N * draw(st.sampled_from([1, 1, 2, 5, 40]))
        L = draw(lg(-3, 2))
        m = draw(st.sampled_from(["sqrt", "sqrt", "monotonic", "monotonic", "linear"]))
        c = {"L": L, "N": N, "N_norm": Nn, "method": m}
        avg = L * Nn / N  # average ds/diN
        sp = lambda: avg * draw(lg(-1.5, 1.5))  # noqa: E731
        if m == "monotonic":
            c["d_lower"], c["d_upper"] = sp(), sp()
        if m == "sqrt":
            form = draw(st.sampled_from(["b_both", "b_lower", "b_upper", "ab_lower", "ab_upper", "ab_both", "none"]))
            if form in ("b_both", "b_lower", "ab_lower", "ab_both"):
                c["b_lower"] = sp()
            if form in ("b_both", "b_upper", "ab_upper", "ab_both"):
                c["b_upper"] = sp()
            if form in ("ab_lower", "ab_both"):
                c["a_lower"] = sp() * (N / Nn) ** 0.5
                if form == "ab_lower":
                    c["b_upper"] = sp()
            if form in ("ab_upper", "ab_both"):
                c["a_upper"] = sp() * (N / Nn) ** 0.5
                if form == "ab_upper":
                    c["b_lower"] = sp()
            c["form"] = form
        return c

    @st.composite
    def xcont(draw):
        Nn = draw(st.integers(20, 200))
        return {
            "N_norm": Nn,
            "N1": draw(st.integers(4, 40)),
            "N2": draw(st.integers(4, 40)),
            "L1": draw(lg(-1, 1)),
            "L2": draw(lg(-1, 1)),
            "a": draw(lg(-1.5, 0.5)),
            "b1": draw(lg(-1, 1)),
            "b2": draw(lg(-1, 1)),
        }

    @st.composite
    def fixed(draw):
        ny = draw(st.one_of(st.integers(1, 8), st.integers(1, 64)))
        return {
            "kind": draw(st.sampled_from(["wall.X", "X.wall", "X.X", "wall.wall"])),
            "method": draw(st.sampled_from(["sqrt", "monotonic", "linear"])),
            "ny": ny,
            "ny_total": ny * draw(st.sampled_from([1, 3, 6])),
            "guards": draw(st.sampled_from([0, 1, 2, 3])),
            "L": draw(lg(-2, 1)),
            "x_len": draw(lg(-2.5, 0.5)),
            "t_len": draw(lg(-2.5, 0.5)),
            "prefactor": draw(st.sampled_from([1.0, 1.0, 0.5, 2.0])),
        }

    @st.composite
    def endkinds(draw):
        ny = draw(st.integers(3, 40))
        c = {
            "method": draw(st.sampled_from(["sqrt", "monotonic"])),
            "ny": ny,
            "ny_total": ny * draw(st.sampled_from([1, 3, 6])),
            "L": draw(lg(-1, 1)),
            "x_len": draw(lg(-2, 0)),
            "t_len": draw(lg(-2, 0)),
        }
        if draw(st.booleans()):
            c["nonorth_lengths"] = [draw(lg(-2, 0)), draw(lg(-2, 0))]
        return c

    @st.composite
    def perleg(draw):
        ny = draw(st.integers(3, 30))
        vals = {}
        for _, pat in LEG_PARAMS:
            # four distinct values per setting, so that a mix-up of two legs is visible
            base = draw(lg(-1.5, 0))
            perm = draw(st.permutations([1.0, 1.7, 2.9, 4.3]))
            vals[pat % "X"] = {leg: float("%.4g" % (base * f)) for leg, f in zip(LEGS, perm)}
        orth = draw(st.booleans())
        return {
            "leg": draw(st.sampled_from(LEGS)),
            "kind": draw(st.sampled_from(["wall.X", "X.wall"])),
            "orthogonal": orth,
            "method": draw(st.sampled_from(["sqrt", "monotonic", "linear"])),
            "ny": ny,
            "ny_total": ny * draw(st.sampled_from([1, 3, 6])),
            "L": draw(lg(-1, 1)),
            "x_len": draw(lg(-2, 0)),
            "values": vals,
        }

    return direct(), xcont(), fixed(), endkinds(), perleg()


def shard(kind, seed, n):
    res = ShardResult()
    d, x, f, ek, pl = strategies()
    if kind == "direct":
        hyp_search(
            "C10", d, check_direct, seed=seed, max_examples=n, result=res,
            nontrivial=lambda c: c["method"] != "linear" and not c.get("_refused"),
            label=lambda c: ["direct/%s/%s" % (c["method"], "refused" if c.pop("_refused", False) else ("monotone" if c.pop("_mono", True) else "non-monotone(unguarded)"))],
        )
    elif kind == "xcont":
        hyp_search("C10", x, check_xpoint_continuity, seed=seed, max_examples=n, result=res,
                   nontrivial=lambda c: not c.get("_refused"), label=lambda c: ["xpoint-continuity/" + ("refused" if c.pop("_refused", False) else "checked")])
    elif kind == "perleg":
        hyp_search("C10", pl, check_per_leg, seed=seed, max_examples=n, result=res,
                   nontrivial=lambda c: not c.get("_refused"),
                   label=lambda c: ["per-leg/%s/%s/%s" % (c["leg"], "orth" if c["orthogonal"] else "nonorth", "refused" if c.pop("_refused", False) else "compared")])
    elif kind == "endkinds":
        hyp_search("C10", ek, check_end_kinds, seed=seed, max_examples=n, result=res,
                   nontrivial=lambda c: c.get("_n_ends", 0) >= 4,
                   label=lambda c: ["end-kinds/%s/ends-compared=%d" % (c["method"], c.pop("_n_ends", 0))])
    else:
        hyp_search(
            "C10", f, check_fixed, seed=seed, max_examples=n, result=res,
            nontrivial=lambda c: not c.get("_refused"),
            label=lambda c: ["fixed/%s/%s/%s" % (c["kind"], c["method"], "refused" if c.pop("_refused", False) else "accepted")],
        )
        for s in res.samples:
            s.pop("_ext", None)
    return res


# ------------------------------------------------------------------------ grid level ------
def doubling_pairs(run):
    base = [
        d for d in corpus.base_corpus(run.tier, run.seed)
        if d["family"] == "G" and d["options"].get("orthogonal", True) and d["options"].get("psi_interpolation_method", "spline") == "spline"
    ]
    done = gridlab.run_cases(base, timeout=240 if run.tier == "quick" else 900)
    ok = [c.desc for c in done if c.outcome == "grid" and c.status.get("wall_s", 0) < 60]
    ok = ok[: (3 if run.tier == "quick" else 24)]
    descs = []
    for d in ok:
        b = copy.deepcopy(d)
        for k in list(b["options"]):
            if k.startswith("ny_") and isinstance(b["options"][k], int):
                b["options"][k] *= 2
        descs += [d, b]
    cases = gridlab.run_cases(descs, timeout=600 if run.tier == "quick" else 1800)
    worst = 0.0
    for i in range(0, len(cases), 2):
        a, b = cases[i], cases[i + 1]
        run.bump("ny-doubling/outcomes=%s,%s" % (a.outcome, b.outcome))
        if a.outcome != "grid" or b.outcome != "grid":
            continue
        run.count(a.desc, nontrivial=True, key="dbl:" + gridlab.desc_id(a.desc))
        nf = float(a.side["mesh_options"].get("finecontour_Nfine", 100))
        for rid, ra in a.side["regions"].items():
            rb = b.side["regions"][rid]
            g = int(a.side["mesh_options"].get("y_boundary_guards", 0))
            lo = g if ra["kind"].startswith("wall") else 0
            nyn = ra["ny_noguards"]
            for loc in ("ylow", "corners"):
                Ra, Za = ra["fields"]["Rxy"][loc][:, lo : lo + nyn + 1], ra["fields"]["Zxy"][loc][:, lo : lo + nyn + 1]
                Rb, Zb = rb["fields"]["Rxy"][loc][:, lo : lo + 2 * nyn + 1 : 2], rb["fields"]["Zxy"][loc][:, lo : lo + 2 * nyn + 1 : 2]
                dist = numpy.hypot(Ra - Rb, Za - Zb)
                length = float(numpy.sum(ra["fields"]["hy"]["centre"][0]) * a.nc["dy"][0, 0])
                tol = 1e-6 + 20.0 * (length / nf) ** 2
                worst = max(worst, float(dist.max()) / tol)
                if float(dist.max()) > tol:
                    x, y = numpy.unravel_index(int(numpy.argmax(dist)), dist.shape)
                    run.failure(
                        "C10/grid/ny-doubling-moves-faces",
                        {"region": ra["name"], "location": loc, "ix": int(x), "face": int(y), "distance": float(dist.max()), "tol": tol},
                        {"desc": a.desc},
                        {},
                    )
    m = run.extra.setdefault("max_error_over_tolerance", {})
    m["ny-doubling-face-distance"] = worst


def run(run):
    q = run.tier == "quick"
    jobs = [dict(kind="direct", seed=run.seed * 100 + i, n=150 if q else 3000) for i in range(6)]
    jobs += [dict(kind="fixed", seed=run.seed * 100 + 20 + i, n=100 if q else 2000) for i in range(6)]
    jobs += [dict(kind="xcont", seed=run.seed * 100 + 40 + i, n=100 if q else 1500) for i in range(2)]
    jobs += [dict(kind="endkinds", seed=run.seed * 100 + 60 + i, n=80 if q else 1200) for i in range(2)]
    jobs += [dict(kind="perleg", seed=run.seed * 100 + 80 + i, n=60 if q else 1000) for i in range(2)]
    for r in run_shards("vf.props.c10", "shard", jobs):
        run.merge_shard(r)
    doubling_pairs(run)
    run.rule = RULE
    run.assumptions = [
        "ValueError from a constructor or from the run-time monotonic guard is the documented refusal",
        "a function accepted by getSfuncFixedSpacing must be strictly increasing at every integer index in "
        "-extend_lower..N+extend_upper (the indices it is used for)",
        "ny -> 2ny: faces compared per region at non-guard y-faces, tolerance 1e-6 + 20 (L/Nfine)^2",
    ]


def replay(run, payload):
    case = payload["case"]
    b = payload["bucket"]
    if "desc" in case:
        print("grid-level replay: re-run the check (pairs are compared)")
        return
    if "/fixed/" in b:
        fails = check_fixed(case)
    elif "xpoint-join" in b:
        fails = check_xpoint_continuity(case)
    elif "end-spacing" in b:
        fails = check_end_kinds(case)
    elif "per-leg" in b:
        fails = check_per_leg(case)
    else:
        fails = check_direct(case)
    for bb, d, lab in fails:
        run.failure(bb, d, case, lab)
