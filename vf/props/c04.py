"""C04 - orthogonal grids are orthogonal: radial grid lines follow grad(psi)."""

import numpy

from .. import corpus, gridcheck, refeq

LEVEL = "exploration"
RULE = (
    "orthogonal members of the shared gridlab corpus plus an orthogonal-only supplement (all topologies "
    "the generator reaches, psi ranges on both sides of every separatrix, follow_perpendicular tolerances "
    "varied). For every region and every poloidal index (cell-centre/x-face columns and y-face/corner "
    "columns) consecutive radial points are joined by the harness' own integration of dr/dpsi = "
    "grad(psi)/|grad(psi)|^2 (DOP853, rtol 1e-11) on the reference field. non-trivial = orthogonal grid "
    "with >= 2 radial points on each side of a separatrix; distinct = descriptor hash."
)


def check(case):
    nc, side = case.nc, case.side
    desc = case.desc
    if not side["mesh_options"].get("orthogonal", True):
        return {"fails": [], "nontrivial": False, "hist": ["skipped/nonorthogonal"], "margins": {}}
    cref = gridcheck.CaseRef(desc)
    ref = cref.ref
    T = gridcheck.refine_tolerance(case)
    mo = side["mesh_options"]
    f_atol = float(mo.get("follow_perpendicular_atol", 1e-8))
    f_rtol = float(mo.get("follow_perpendicular_rtol", 2e-8))
    xpts = side.get("x_points", [])
    fails = []
    margins = {}
    nsteps = 0
    nskipped = 0
    two_sides = False

    def fail(bucket, detail):
        if not any(x[0] == bucket for x in fails):
            fails.append((bucket, detail, {}))

    for rid, reg in side["regions"].items():
        f = reg["fields"]
        pv = reg["psi_vals"]
        nx = reg["nx"]
        if nx >= 1 and reg["separatrix_radial_index"] in (reg["radialIndex"], reg["radialIndex"] + 1):
            two_sides = True
        # interleave radial points: index k <-> psi_vals[k]
        for col_kind, (even, odd) in {"centre-columns": ("xlow", "centre"), "face-columns": ("corners", "ylow")}.items():
            Re, Ze = f["Rxy"][even], f["Zxy"][even]
            Ro, Zo = f["Rxy"][odd], f["Zxy"][odd]
            ncol = Re.shape[1]
            for j in range(ncol):
                P = numpy.zeros((2 * nx + 1, 2))
                P[0::2, 0], P[0::2, 1] = Re[:, j], Ze[:, j]
                P[1::2, 0], P[1::2, 1] = Ro[:, j], Zo[:, j]
                pinned = gridcheck.xpoint_mask(P[:, 0], P[:, 1], xpts)
                # points outside the rectangle of the psi array have no reference psi
                pinned = pinned | ~cref.in_data_domain(P[:, 0], P[:, 1], margin=1e-3)
                g = numpy.hypot(ref.dR(P[:, 0], P[:, 1]), ref.dZ(P[:, 0], P[:, 1]))
                for k in range(2 * nx):
                    if pinned[k] or pinned[k + 1]:
                        nskipped += 1
                        continue
                    a, b = P[k], P[k + 1]
                    # integrate from the point with the larger |grad psi| (better conditioned)
                    if g[k] >= g[k + 1]:
                        p0, psi0, p1, psi1, gmin = a, pv[k], b, pv[k + 1], g[k + 1]
                    else:
                        p0, psi0, p1, psi1, gmin = b, pv[k + 1], a, pv[k], g[k]
                    # start from the reference psi of the actual start point (it is within T of psi0)
                    psi_start = float(ref.psi(p0[0], p0[1]))
                    out = refeq.trace_gradpsi(ref, p0, psi_start, [psi1])
                    nsteps += 1
                    if out is None:
                        nskipped += 1
                        continue
                    q = out[0]
                    dist = float(numpy.hypot(q[0] - p1[0], q[1] - p1[1]))
                    rr = float(numpy.hypot(p1[0], p1[1]))
                    delta = 100.0 * (f_atol + f_rtol * rr) + 10.0 * T / max(gmin, 1e-300)
                    margins["integral-curve"] = max(margins.get("integral-curve", 0.0), dist / delta)
                    if dist > delta:
                        fail(
                            "C04/off-integral-curve/" + col_kind,
                            {"region": reg["name"], "y_index": j, "radial_step": k, "distance": dist, "tol": delta,
                             "from": [float(p0[0]), float(p0[1])], "grid_point": [float(p1[0]), float(p1[1])]},
                        )
                    # chord direction vs grad(psi): within the turning of the field direction
                    ch = b - a
                    chn = ch / numpy.hypot(*ch)
                    ga = numpy.array([float(ref.dR(a[0], a[1])), float(ref.dZ(a[0], a[1]))])
                    gb = numpy.array([float(ref.dR(b[0], b[1])), float(ref.dZ(b[0], b[1]))])
                    ga, gb = ga / numpy.hypot(*ga), gb / numpy.hypot(*gb)
                    s = numpy.sign(pv[k + 1] - pv[k])
                    turning = float(numpy.arccos(numpy.clip(numpy.dot(ga, gb), -1, 1)))
                    ang = max(
                        float(numpy.arccos(numpy.clip(s * numpy.dot(chn, ga), -1, 1))),
                        float(numpy.arccos(numpy.clip(s * numpy.dot(chn, gb), -1, 1))),
                    )
                    near_x = gridcheck.near_xpoint_mask(numpy.array([a[0], b[0]]), numpy.array([a[1], b[1]]), xpts, 3.0 * float(numpy.hypot(*ch))).any()
                    if not near_x:
                        lim = 1.5 * turning + 2.0 * delta / float(numpy.hypot(*ch)) + 1e-6
                        margins["chord-vs-gradpsi-angle"] = max(margins.get("chord-vs-gradpsi-angle", 0.0), ang / lim)
                        if ang > lim:
                            fail(
                                "C04/radial-direction-not-along-gradpsi/" + col_kind,
                                {"region": reg["name"], "y_index": j, "radial_step": k, "angle": ang, "turning": turning},
                            )
    # orthogonal grids: g12, g13 identically zero
    for k in ("g12", "g13", "g_12"):
        for sfx in ("", "_xlow", "_ylow"):
            if numpy.any(nc[k + sfx] != 0.0):
                fail("C04/%s%s-nonzero" % (k, sfx), {"max_abs": float(numpy.abs(nc[k + sfx]).max())})
    hist = ["steps/%s" % ("<500" if nsteps < 500 else ">=500"), "pinned-or-untraceable-steps/%d" % min(nskipped, 99)]
    return {"fails": fails, "nontrivial": bool(two_sides and nsteps > 0), "margins": margins, "hist": hist}


def supplement(tier, seed):
    n = 6 if tier == "quick" else 60
    return corpus.collect(corpus.g_case_strategy(orthogonal=True), n, seed + 404)


def run(run):
    descs = [d for d in corpus.base_corpus(run.tier, run.seed) if d["options"].get("orthogonal", True) and d["family"] == "G"]
    descs += supplement(run.tier, run.seed)
    gridcheck.run_corpus_property(run, "vf.props.c04", "check", descs)
    run.rule = RULE
    run.assumptions = [
        "tolerance per radial step: 100 (follow_perpendicular_atol + follow_perpendicular_rtol |r|) + 10 T_C01/|grad psi|",
        "steps that start or end at a corner pinned to an X-point are exempt (counted)",
        "direction clause: angle(chord, grad psi at either end) <= 1.5 x turning of grad psi over the step + 2 delta/|chord| + 1e-6, "
        "skipped within 3 chord lengths of an X-point",
    ]


def replay(run, payload):
    gridcheck.replay_corpus_property(run, "vf.props.c04", "check", payload)
