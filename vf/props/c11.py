"""C11 - targets sit on the wall; penalty_mask and wall output match the geometry."""

import math

import numpy

from .. import corpus, exactgeom as xg, families, gridcheck

LEVEL = "exploration"
RULE = (
    "shared gridlab corpus plus a wall-emphasis supplement (rectangular, chamfered = slanted targets, "
    "tilted, subdivided/perturbed polygons with up to 40 vertices, clockwise or anticlockwise input, "
    "guards 0..3, orthogonal and non-orthogonal). Oracle: exact (rational) point-polyline distance and "
    "point-in-polygon tests on the wall the harness handed to hypnotoad. non-trivial = non-orthogonal "
    "grid with a slanted (non axis-aligned) target edge and >= 1 guard cell, or any grid whose "
    "penalty_mask has a fractional entry; distinct = descriptor hash."
)


def poly_dist(p, closed):
    return math.sqrt(float(xg.point_polyline_dist2((float(p[0]), float(p[1])), closed)))


def check(case):
    nc, side = case.nc, case.side
    desc = case.desc
    fails = []
    margins = {}
    hist = []
    if desc["family"] != "G":
        return {"fails": [], "nontrivial": False, "margins": {}, "hist": ["skipped/not-tokamak"]}
    orth = bool(side["mesh_options"].get("orthogonal", True))
    g = int(side["mesh_options"].get("y_boundary_guards", 0))
    wall_in = families.g_wall(desc["eq"])
    wall = families.anticlockwise(wall_in)
    closed = wall + [wall[0]]
    cref = gridcheck.CaseRef(desc)
    T = gridcheck.refine_tolerance(case)

    def fail(bucket, detail):
        if not any(x[0] == bucket for x in fails):
            fails.append((bucket, detail, {"orthogonal": orth}))

    def margin(name, v):
        if numpy.isfinite(v):
            margins[name] = max(margins.get(name, 0.0), float(v))

    # ---- closed_wall_R/Z ------------------------------------------------------------------
    cw = numpy.stack([numpy.asarray(nc["closed_wall_R"]), numpy.asarray(nc["closed_wall_Z"])], -1)
    if cw.shape[0] != len(wall) + 1:
        fail("C11/closed_wall-length", {"got": int(cw.shape[0]), "want": len(wall) + 1})
    else:
        if not numpy.array_equal(cw[0], cw[-1]):
            fail("C11/closed_wall-not-closed", {})
        if not numpy.array_equal(cw[:-1], numpy.array(wall)):
            fail("C11/closed_wall-vertices", {"got_first": cw[:3].tolist(), "want_first": wall[:3], "input_clockwise": desc["eq"].get("wall", {}).get("clockwise", False)})
        if xg.shoelace2([tuple(p) for p in cw[:-1]]) <= 0:
            fail("C11/closed_wall-not-anticlockwise", {})
    hist.append("wall/%s/%s/%d-vertices" % (desc["eq"].get("wall", {}).get("kind", "rect"), "cw-input" if desc["eq"].get("wall", {}).get("clockwise") else "acw-input", len(wall)))

    ps = side.get("psi_sep") or [0.0]
    sep_spread = abs(ps[0] - ps[-1]) if side.get("double_null_type") == "connected" else 0.0
    # ---- targets on the wall ------------------------------------------------------------
    slanted = False
    for rid, reg in side["regions"].items():
        f = reg["fields"]
        ends = []
        if side["connections"][rid].get("lower") is None and reg["kind"].startswith("wall"):
            ends.append(("lower", g))
        if side["connections"][rid].get("upper") is None and reg["kind"].endswith("wall"):
            ends.append(("upper", -1 - g))
        for name, idx in ends:
            for loc, off in (("ylow", 1), ("corners", 0)):
                R, Z = f["Rxy"][loc][:, idx], f["Zxy"][loc][:, idx]
                sep_index = None
                if loc == "corners":
                    # the leg's own separatrix: the radial boundary where its X-point sits
                    xp = reg["xp_end"] if name == "lower" else reg["xp_start"]
                    ri = reg["radialIndex"]
                    if ri < len(xp) and xp[ri] is not None:
                        sep_index = 0
                    elif ri + 1 < len(xp) and xp[ri + 1] is not None:
                        sep_index = len(R) - 1
                for i in range(len(R)):
                    d = poly_dist((R[i], Z[i]), closed)
                    gpsi = float(numpy.hypot(cref.ref.dR(R[i], Z[i]), cref.ref.dZ(R[i], Z[i])))
                    if orth:
                        if i != sep_index:
                            continue
                        # a connected double null is gridded with one separatrix value for both
                        # X-points (documented in describeDoubleNull): the leg found from the other
                        # X-point is pulled onto that surface, off its wall point by dpsi/|grad psi|
                        tol = 1e-4 + 2.0 * sep_spread / max(gpsi, 1e-300)
                        margin("orth-separatrix-target-distance", d / tol)
                        if d > tol:
                            fail("C11/separatrix-target-off-wall/orth", {"region": reg["name"], "end": name, "distance": d, "tol": tol})
                    else:
                        # the wall point is the crossing of a FineContour chord (spacing h) with the
                        # wall, then pulled back to the surface: off the wall by up to the
                        # sagitta kappa h^2/8 of that chord (safety 4)
                        rr = cref.ref
                        px, pz = float(rr.dR(R[i], Z[i])), float(rr.dZ(R[i], Z[i]))
                        kap = abs(float(rr.dRR(R[i], Z[i])) * pz * pz - 2 * float(rr.dRZ(R[i], Z[i])) * px * pz + float(rr.dZZ(R[i], Z[i])) * px * px) / max(gpsi, 1e-300) ** 3
                        hh = float(numpy.sum(f["hy"]["centre"][min(i, f["hy"]["centre"].shape[0] - 1)]) * nc["dy"][0, 0]) / float(side["mesh_options"].get("finecontour_Nfine", 100))
                        tol = 1e-6 + 10.0 * T / max(gpsi, 1e-300) + 0.5 * kap * hh * hh
                        margin("nonorth-target-distance", d / tol)
                        if d > tol:
                            fail(
                                "C11/target-off-wall/nonorth",
                                {"region": reg["name"], "end": name, "location": loc, "ix": i, "distance": d, "tol": tol, "point": [float(R[i]), float(Z[i])]},
                            )
                # slanted target edge? find the wall edge nearest the first point
                k = min(range(len(wall)), key=lambda k: float(xg.point_seg_dist2((float(R[0]), float(Z[0])), closed[k], closed[k + 1])))
                a, b = closed[k], closed[k + 1]
                if abs(a[0] - b[0]) > 1e-6 and abs(a[1] - b[1]) > 1e-6:
                    slanted = True
        # ---- cells between targets inside, guard cells outside (non-orthogonal) ------------
        if not orth:
            ny = f["Rxy"]["centre"].shape[1]
            lo = g if (side["connections"][rid].get("lower") is None and reg["kind"].startswith("wall")) else 0
            hi = ny - g if (side["connections"][rid].get("upper") is None and reg["kind"].endswith("wall")) else ny
            Rc, Zc = f["Rxy"]["centre"], f["Zxy"]["centre"]
            for j in range(ny):
                for i in range(Rc.shape[0]):
                    pos = xg.point_in_polygon((float(Rc[i, j]), float(Zc[i, j])), wall)
                    want_inside = lo <= j < hi
                    if pos == 0:
                        continue
                    if want_inside != (pos > 0):
                        fail(
                            "C11/cell-centre-on-wrong-side-of-wall/nonorth",
                            {"region": reg["name"], "ix": i, "iy": j, "guard_cell": not want_inside, "inside_wall": pos > 0},
                        )
    # ---- penalty_mask -----------------------------------------------------------------------
    pm = nc["penalty_mask"]
    frac_cells = 0
    for rid, reg in side["regions"].items():
        (xs, xe), (ys, ye) = side["region_indices"][rid]
        f = reg["fields"]
        Ry, Zy = f["Rxy"]["ylow"], f["Zxy"]["ylow"]
        for i in range(xe - xs):
            for j in range(ye - ys):
                p1 = (float(Ry[i, j]), float(Zy[i, j]))
                p2 = (float(Ry[i, j + 1]), float(Zy[i, j + 1]))
                s1 = xg.point_in_polygon(p1, wall)
                s2 = xg.point_in_polygon(p2, wall)
                d1 = poly_dist(p1, closed)
                d2 = poly_dist(p2, closed)
                got = float(pm[xs + i, ys + j])
                if min(d1, d2) < 1e-7:
                    # a face (numerically) on the wall: target faces - either classification of
                    # that face is acceptable
                    cand = []
                    for o1 in ((s1 < 0, True, False) if d1 < 1e-7 else (s1 < 0,)):
                        for o2 in ((s2 < 0, True, False) if d2 < 1e-7 else (s2 < 0,)):
                            cand.append(expected_mask(p1, p2, o1, o2, closed))
                    ok = any(abs(got - c) <= 1e-6 for c in cand if c is not None)
                    if not ok:
                        fail("C11/penalty_mask/face-on-wall", {"region": reg["name"], "ix": i, "iy": j, "got": got, "candidates": [c for c in cand if c is not None]})
                    continue
                want = expected_mask(p1, p2, s1 < 0, s2 < 0, closed)
                if want is None:
                    continue
                if 0.0 < want < 1.0:
                    frac_cells += 1
                if abs(got - want) > 1e-9:
                    kind = "inside" if want == 0.0 else ("outside" if want == 1.0 else "crossing")
                    fail(
                        "C11/penalty_mask/%s" % kind,
                        {"region": reg["name"], "ix": i, "iy": j, "got": got, "want": want, "p1_outside": s1 < 0, "p2_outside": s2 < 0},
                    )
    hist.append("penalty_mask-fractional-cells/%s" % ("0" if frac_cells == 0 else ">0"))
    nontrivial = (not orth and slanted and g >= 1) or frac_cells > 0
    if slanted:
        hist.append("slanted-target/%s/g%d" % ("orth" if orth else "nonorth", min(g, 1)))
    return {"fails": fails, "nontrivial": bool(nontrivial), "margins": margins, "hist": hist}


def expected_mask(p1, p2, out1, out2, closed):
    """0 both inside, 1 both outside, otherwise the outside fraction of the segment p1-p2
    (distance from the outside end to the wall crossing over the segment length)."""
    if not out1 and not out2:
        return 0.0
    if out1 and out2:
        return 1.0
    pts = []
    for k in range(len(closed) - 1):
        kind, pt, par = xg.seg_seg(p1, p2, closed[k], closed[k + 1])
        if kind in ("proper", "touch") and pt is not None:
            pts.append((float(pt[0]), float(pt[1])))
    if len(pts) != 1:
        # several crossings: the documented single-crossing formula does not apply
        uniq = []
        for q in pts:
            if not any(math.hypot(q[0] - u[0], q[1] - u[1]) < 1e-12 for u in uniq):
                uniq.append(q)
        if len(uniq) != 1:
            return None
        pts = uniq
    q = pts[0]
    outside_end = p1 if out1 else p2
    L = math.hypot(p2[0] - p1[0], p2[1] - p1[1])
    return math.hypot(outside_end[0] - q[0], outside_end[1] - q[1]) / L


def supplement(tier, seed):
    from hypothesis import strategies as st

    @st.composite
    def build(draw):
        top = draw(st.sampled_from(["lsn", "usn", "cdn", "cdn"]))
        kind = draw(st.sampled_from(["chamfer", "chamfer", "tilt", "rect"]))
        w = {"kind": kind, "inset": 0.2, "clockwise": draw(st.booleans()), "start": draw(st.integers(0, 9))}
        if kind == "chamfer":
            w["cut"] = [round(draw(st.floats(0.12, 0.2)), 3) for _ in range(4)]
        if kind == "tilt":
            w["tilt"] = round(draw(st.sampled_from([-1.0, 1.0])) * draw(st.floats(0.04, 0.12)), 3)
        if draw(st.booleans()):
            w["subdiv"] = draw(st.sampled_from([2, 3, 5]))
            w["bumps"] = [round(draw(st.floats(-0.003, 0.003)), 4) for _ in range(3)]
        orth = draw(st.sampled_from([False, False, True]))
        o = {"orthogonal": orth, "nx_core": 2, "nx_sol": 2, "finecontour_Nfine": 60, "y_boundary_guards": draw(st.sampled_from([0, 1, 1, 2]))}
        if top in ("lsn", "usn"):
            o.update(ny_inner_divertor=5, ny_outer_divertor=5, ny_sol=8)
        else:
            o.update({k: 5 for k in ["ny_inner_lower_divertor", "ny_inner_upper_divertor", "ny_outer_lower_divertor", "ny_outer_upper_divertor"]})
            o.update(ny_inner_sol=4, ny_outer_sol=4)
        eq = {"topology": top, "sign": draw(st.sampled_from([1.0, -1.0])), "fpol": [2.0, 0.1, 0, 0], "wall": w}
        zs = draw(st.sampled_from([None, None, -1.5, 2.0]))
        if zs is not None:
            eq["geom"] = {"zshift": zs}  # a machine whose Z origin is not at the midplane
        return {"family": "G", "entry": "api", "eq": eq, "options": o}

    n = 10 if tier == "quick" else 80

    def key(d):
        w = d["eq"]["wall"]
        k = "%s/%s" % (w["kind"], "cw" if w["clockwise"] else "acw") + ("/zshift" if d["eq"].get("geom") else "")
        return k if tier == "quick" else "%s/%s/%s" % (k, d["eq"]["topology"], d["options"]["orthogonal"])

    return corpus.collect(build(), n, seed + 1100, keyfn=key, oversample=12)


def run(run):
    descs = [d for d in corpus.base_corpus(run.tier, run.seed) if d["family"] == "G"] + supplement(run.tier, run.seed)
    gridcheck.run_corpus_property(run, "vf.props.c11", "check", descs)
    run.rule = RULE
    run.assumptions = [
        "the centre of the psi array's box lies inside the wall (hypnotoad's reference point for inside/outside); "
        "walls are convex rectangles / chamfered / tilted / subdivided with bumps, and non-convex ones with a "
        "re-entrant baffle spike; no generated ray passes exactly through a wall vertex",
        "non-orthogonal target tolerance 1e-6 + 10 T_C01/|grad psi| + kappa h^2/2 (h = L/Nfine, kappa the curvature of "
        "the reference flux surface at the point: sagitta of the FineContour chord that is intersected with the wall); "
        "orthogonal separatrix target 1e-4 (leg tracing: chord between integration steps), plus 2 |psi_sep1 - psi_sep2|/|grad psi| on "
        "connected double nulls, which are gridded with one separatrix value for both X-points by design",
        "penalty_mask fraction = |outside end - wall crossing| / |p1 p2| as the property states (the shipped "
        "documentation words it as the fraction inside); a y-face numerically on the wall (target faces) may be "
        "classified either way",
    ]


def replay(run, payload):
    gridcheck.replay_corpus_property(run, "vf.props.c11", "check", payload)
