"""C14 - deterministic, side-effect free, and reproducible from embedded inputs."""

import copy
import json
import os
import subprocess
import sys
import warnings

import numpy

from .. import corpus, families, gridlab
from ..common import ShardResult, VERIF
from ..unitlab import hyp_search, quiet_stdio, run_shards
from .c13 import compare_grids

LEVEL = "exploration"
RULE = (
    "(a) members of the shared gridlab corpus generated twice in fresh processes (every other repeat hands "
    "the same option values over as numpy.float64 objects): every numeric variable bit-identical, the embedded "
    "option YAML loadable with yaml.safe_load (as hypnotoad-geqdsk loads it) and equal; (b) Hypothesis: TokamakEquilibrium(make_regions=False) over all subsets of "
    "{reverse_current, psi_divide_twopi, reverse_Bt, extrapolate_profiles} and generated arrays - the "
    "caller's arrays, wall list and settings dict must be byte-identical afterwards, and building twice "
    "from the same arrays must give the same equilibrium; (c) RuleBasedStateMachine: generated histories "
    "of circular / tokamak constructions in one interpreter, after which a fixed probe grid must have the "
    "fingerprint computed in a fresh process; (d) geqdsk + yaml -> hypnotoad-geqdsk (or the same inputs "
    "through read_geqdsk + BoutMesh in Python) -> hypnotoad-recreate-inputs -> hypnotoad-geqdsk, option sets "
    "including explicit None values and explicit nonorthogonal_* values. non-trivial = a pair/history/round trip that completed; "
    "distinct = descriptor / argument / history hash."
)


# ---- (b) caller's inputs are not modified --------------------------------------------------
def check_inputs(c):
    from hypnotoad.cases import tokamak

    eqd = {"topology": c["topology"], "sign": c["sign"], "A": c["A"], "nR": c["n"], "nZ": c["n"], "fpol": c["fpol"], "pres": c["pres"], "profile_extent": 1.0}
    inp = families.g_inputs(eqd)
    psi_o, psi_x = inp["crit"]["o"][2], inp["crit"]["x"][0][2]
    opts = {k: True for k in c["flags"]}
    if "extrapolate_profiles" in c["flags"]:
        ps = psi_o + 1.2 * (psi_x - psi_o)
        if "reverse_current" in c["flags"]:
            ps = -ps
        if "psi_divide_twopi" in c["flags"]:
            ps = ps / (2 * numpy.pi)
        opts["psi_sol"] = ps
        opts["psi_sol_inner"] = ps
    arrays = {
        "R1D": inp["R1D"].copy(), "Z1D": inp["Z1D"].copy(), "psi2D": inp["psi2D"].copy(), "psi1D": inp["psi1D"].copy(),
        "fpol1D": inp["fpol1D"].copy(), "pressure": inp["pressure"].copy(),
    }
    before = {k: v.tobytes() for k, v in arrays.items()}
    wall = list(inp["wall"])
    wall_before = list(wall)
    opts_before = json.dumps(opts, sort_keys=True)
    fails = []

    def build():
        with quiet_stdio(), warnings.catch_warnings():
            warnings.simplefilter("ignore")
            return tokamak.TokamakEquilibrium(
                arrays["R1D"], arrays["Z1D"], arrays["psi2D"], arrays["psi1D"], arrays["fpol1D"], pressure=arrays["pressure"],
                wall=wall, make_regions=False, settings=opts,
            )

    try:
        eq1 = build()
    except Exception as e:  # noqa: BLE001
        c["_raised"] = type(e).__name__
        return []
    changed = [k for k, v in arrays.items() if v.tobytes() != before[k]]
    if changed:
        fails.append(("C14/caller-arrays-modified", {"arrays": changed, "flags": sorted(c["flags"])}, {}))
    if wall != wall_before:
        fails.append(("C14/caller-wall-modified", {}, {}))
    if json.dumps(opts, sort_keys=True) != opts_before:
        fails.append(("C14/caller-settings-modified", {}, {}))
    # building again from the same objects gives the same equilibrium
    try:
        eq2 = build()
        pts = (numpy.array([1.4, 1.55, 1.63]), numpy.array([-0.1, 0.05, 0.2]))
        a, b = numpy.asarray(eq1.psi(*pts)), numpy.asarray(eq2.psi(*pts))
        f1, f2 = numpy.asarray(eq1.fpol(a)), numpy.asarray(eq2.fpol(b))
        if not (numpy.array_equal(a, b) and numpy.array_equal(f1, f2) and eq1.psi_axis == eq2.psi_axis):
            fails.append(
                ("C14/second-build-differs", {"psi_first": a.tolist(), "psi_second": b.tolist(), "flags": sorted(c["flags"])}, {})
            )
    except Exception as e:  # noqa: BLE001
        fails.append(("C14/second-build-raised", {"exc": repr(e)[:300], "flags": sorted(c["flags"])}, {}))
    return fails


def inputs_strategy():
    from hypothesis import strategies as st

    fl = lambda a, b, k=3: st.floats(a, b).map(lambda x: round(x, k))  # noqa: E731
    return st.fixed_dictionaries(
        {
            "topology": st.sampled_from(["lsn", "usn", "cdn"]),
            "sign": st.sampled_from([1.0, -1.0]),
            "A": st.sampled_from([1.0, 0.3, 3.0]),
            "n": st.sampled_from([33, 41, 49]),
            "fpol": st.tuples(fl(0.5, 3.0), fl(-0.15, 0.15), fl(-0.08, 0.08), fl(-0.03, 0.03)).map(list),
            "pres": st.tuples(fl(10.0, 5000.0, 1), fl(-0.7, -0.2), fl(-0.05, 0.05), fl(-0.02, 0.02)).map(list),
            "flags": st.lists(st.sampled_from(["reverse_current", "psi_divide_twopi", "reverse_Bt", "extrapolate_profiles"]), unique=True, max_size=4).map(sorted),
        }
    )


def shard_inputs(seed, n):
    res = ShardResult()
    hyp_search(
        "C14", inputs_strategy(), check_inputs, seed=seed, max_examples=n, result=res,
        nontrivial=lambda c: bool(c["flags"]) and "_raised" not in c,
        label=lambda c: ["inputs/flags=%s%s" % ("+".join(c["flags"]) or "none", "/raised:" + c.pop("_raised") if "_raised" in c else "")],
    )
    return res


# ---- (c) history independence: stateful machine ------------------------------------------------
PROBE = {"family": "C", "eq": {}, "options": {"nx": 3, "ny": 6, "r_inner": 0.12, "r_outer": 0.28, "R0": 1.1, "q_coefficients": [2.2, 3.0], "orthogonal": True, "finecontour_Nfine": 40}}


def probe_fingerprint():
    """Build the probe grid in this interpreter and hash its region arrays."""
    import hashlib

    from hypnotoad.cases.circular import CircularEquilibrium
    from hypnotoad.core.mesh import BoutMesh

    with quiet_stdio(), warnings.catch_warnings():
        warnings.simplefilter("ignore")
        o = dict(PROBE["options"])
        eq = CircularEquilibrium(settings=o, nonorthogonal_settings=o)
        mesh = BoutMesh(eq, o)
        mesh.geometry()
    h = hashlib.sha256()
    for name in ("Rxy", "Zxy", "hy", "zShift", "g22", "g_23", "curl_bOverB_z", "poloidal_distance"):
        a = getattr(mesh, name)
        for loc in ("centre", "xlow", "ylow"):
            h.update(numpy.ascontiguousarray(getattr(a, loc)).tobytes())
    return h.hexdigest()


def fresh_fingerprint():
    code = "import sys; sys.path.insert(0, %r); from vf.common import setup_env; setup_env(); from vf.props import c14; print('FP', c14.probe_fingerprint())" % VERIF
    env = dict(os.environ)
    env["PYTHONHASHSEED"] = "0"
    out = subprocess.run([sys.executable, "-W", "ignore", "-c", code], capture_output=True, text=True, env=env, timeout=600)
    for line in out.stdout.splitlines():
        if line.startswith("FP "):
            return line.split()[1]
    raise RuntimeError("probe fingerprint failed: %s" % out.stderr[-800:])


def run_machine(seed, max_examples, steps, reference):
    """RuleBasedStateMachine over construction histories; returns ShardResult."""
    import hypothesis
    from hypothesis import HealthCheck, Phase, settings, strategies as st
    from hypothesis.stateful import RuleBasedStateMachine, invariant, rule, run_state_machine_as_test

    res = ShardResult()
    found = {}

    class Builds(RuleBasedStateMachine):
        def __init__(self):
            super().__init__()
            self.history = []

        @rule(nx=st.integers(2, 4), ny=st.integers(4, 8), q=st.lists(st.floats(1.2, 4.0).map(lambda x: round(x, 2)), min_size=1, max_size=2),
              limiter=st.just(False), geometry=st.booleans())
        def circular(self, nx, ny, q, limiter, geometry):
            from hypnotoad.cases.circular import CircularEquilibrium
            from hypnotoad.core.mesh import BoutMesh

            o = {"nx": nx, "ny": ny, "q_coefficients": q, "limiter": limiter, "finecontour_Nfine": 30}
            self.history.append(["circular", o, geometry])
            with quiet_stdio(), warnings.catch_warnings():
                warnings.simplefilter("ignore")
                try:
                    eq = CircularEquilibrium(settings=o, nonorthogonal_settings=o)
                    if geometry:
                        m = BoutMesh(eq, o)
                        m.geometry()
                except Exception:  # noqa: BLE001
                    pass

        @rule(top=st.sampled_from(["lsn", "cdn", "udn"]), sign=st.sampled_from([1.0, -1.0]),
              flags=st.lists(st.sampled_from(["reverse_current", "psi_divide_twopi", "reverse_Bt"]), unique=True, max_size=2),
              interp=st.sampled_from(["spline", "dct"]), regions=st.booleans())
        def tokamak_equilibrium(self, top, sign, flags, interp, regions):
            from hypnotoad.cases import tokamak

            inp = families.g_inputs({"topology": top, "sign": sign, "nR": 33, "nZ": 33, "fpol": [2.0, 0.1, 0, 0]})
            o = {k: True for k in flags}
            o["psi_interpolation_method"] = interp
            if top == "udn":
                o["nx_inter_sep"] = 1
            self.history.append(["tokamak", top, sign, sorted(flags), interp, regions])
            with quiet_stdio(), warnings.catch_warnings():
                warnings.simplefilter("ignore")
                try:
                    tokamak.TokamakEquilibrium(inp["R1D"], inp["Z1D"], inp["psi2D"], inp["psi1D"], inp["fpol1D"], wall=inp["wall"],
                                               make_regions=regions, settings=o, nonorthogonal_settings=o)
                except Exception:  # noqa: BLE001
                    pass

        @rule()
        def probe(self):
            self.history.append(["probe"])
            fp = probe_fingerprint()
            res.evaluations += 1
            key = json.dumps(self.history)
            if len(self.history) > 1:
                res.nontrivial.add(str(hash(key)))
                res.sample({"history": self.history}, limit=2)
            res.bump("machine/probe-after-%d-builds" % min(len(self.history) - 1, 4))
            if fp != reference:
                found["case"] = {"history": list(self.history)}
                raise AssertionError("probe fingerprint differs after history")

    st_ = settings(
        max_examples=max_examples, stateful_step_count=steps, deadline=None, database=None, report_multiple_bugs=False,
        suppress_health_check=list(HealthCheck), phases=[Phase.generate], print_blob=False,
    )
    try:
        run_state_machine_as_test(hypothesis.seed(seed)(Builds), settings=st_)
    except AssertionError:
        if "case" in found:
            res.failures.append(("C14/probe-grid-depends-on-earlier-builds", {"steps": len(found["case"]["history"])}, found["case"], {}))
        else:
            raise
    return res


def shard_machine(seed, max_examples, steps, reference):
    return run_machine(seed, max_examples, steps, reference)


# ---- (a) and (d): grid level --------------------------------------------------------------------
def repeat_pairs(run):
    allbase = corpus.base_corpus(run.tier, run.seed)
    done = gridlab.run_cases(allbase, timeout=240 if run.tier == "quick" else 900)
    ok = [c for c in done if c.outcome == "grid" and c.status.get("wall_s", 0) < 60]
    ok = ok[: (4 if run.tier == "quick" else 30)]
    reps = []
    for c in ok:
        d = copy.deepcopy(c.desc)
        d["repeat"] = 1  # ignored by the worker: forces an independent run in a fresh process
        if len(reps) % 2 == 1:
            d["numpy_options"] = True  # same values handed over as numpy.float64 objects
        reps.append(d)
    again = gridlab.run_cases(reps, timeout=600)
    for c1, c2 in zip(ok, again):
        run.bump("repeat/outcomes=%s,%s" % (c1.outcome, c2.outcome))
        run.count(c1.desc, nontrivial=c2.outcome == "grid", key="rep:" + gridlab.desc_id(c1.desc))
        if c2.outcome != "grid":
            if c2.outcome != "timeout":
                run.failure("C14/repeat-outcome-differs", {"second": c2.outcome, "message": c2.status.get("exc_msg", "")[:200]}, {"desc": c1.desc}, {})
            continue
        bad = compare_grids(c1.nc, c2.nc)
        if bad:
            run.failure("C14/repeat-not-bit-identical", {"variables": bad[:20]}, {"desc": c1.desc}, {})
        # the embedded option set must be loadable the way the command-line entry point loads it
        import yaml

        loaded = []
        for c in (c1, c2):
            try:
                o = yaml.safe_load(c.nc["hypnotoad_inputs_yaml"])
                if not isinstance(o, dict):
                    raise ValueError("not a mapping")
                loaded.append(o)
            except Exception as e:  # noqa: BLE001
                run.failure(
                    "C14/embedded-yaml-not-loadable" + ("/numpy-scalar-options" if c.desc.get("numpy_options") else ""),
                    {"error": "%s: %s" % (type(e).__name__, str(e)[:300])}, {"desc": c.desc}, {},
                )
        if len(loaded) == 2 and loaded[0] != loaded[1]:
            diff = sorted(k for k in set(loaded[0]) | set(loaded[1]) if loaded[0].get(k) != loaded[1].get(k))
            run.failure("C14/embedded-yaml-differs-between-repeats", {"keys": diff[:20]}, {"desc": c1.desc}, {})
        run.bump("repeat/numpy-scalar-options=%s" % bool(c2.desc.get("numpy_options")))
        a1, a2 = c1.nc["__attrs__"], c2.nc["__attrs__"]
        if a1.get("grid_id") == a2.get("grid_id"):
            run.failure("C14/grid_id-not-unique", {"grid_id": a1.get("grid_id")}, {"desc": c1.desc}, {})


def roundtrip(run):
    from hypothesis import strategies as st

    @st.composite
    def build(draw):
        top = draw(st.sampled_from(["lsn", "usn", "cdn", "ldn"]))
        eq = {"topology": top, "sign": draw(st.sampled_from([1.0, -1.0])), "nR": 65, "nZ": 65,
              "fpol": [2.0, 0.1, -0.02, 0.0], "pres": [800.0, -0.5, 0.0, 0.0]}
        if top == "ldn":
            eq["delta"] = 0.01
        o = {"nx_core": 2, "nx_sol": 2, "finecontour_Nfine": 50, "y_boundary_guards": draw(st.sampled_from([0, 1]))}
        if top in ("lsn", "usn"):
            o.update(ny_inner_divertor=3, ny_outer_divertor=3, ny_sol=6)
        else:
            o.update(ny_inner_divertor=3, ny_outer_divertor=3, ny_sol=6)  # per-leg values left to their expression defaults
            if top == "ldn":
                o["nx_inter_sep"] = 1
        for k in draw(st.lists(st.sampled_from(["reverse_current", "reverse_Bt", "psi_divide_twopi"]), unique=True, max_size=2)):
            o[k] = True
        if draw(st.booleans()):
            o["psi_interpolation_method"] = "spline"
            o["orthogonal"] = draw(st.sampled_from([True, True, False]))
            if not o["orthogonal"] and draw(st.booleans()):
                # explicit (non-default) non-orthogonal settings must survive the round trip too
                o["nonorthogonal_xpoint_poloidal_spacing_length"] = draw(st.sampled_from([0.03, 0.1]))
                o["nonorthogonal_target_all_poloidal_spacing_length"] = draw(st.sampled_from([0.3, 0.6]))
        if draw(st.booleans()):
            o["psinorm_sol"] = 1.12
            o["psi_spacing_separatrix_multiplier"] = 0.6
        if draw(st.booleans()):
            # an explicit None is significant where the default is an expression of other options
            o["target_all_poloidal_spacing_length"] = draw(st.sampled_from([0.1, 0.3]))
            o["target_outer_%s_poloidal_spacing_length" % ("upper" if top == "usn" else "lower")] = None
        entry = draw(st.sampled_from(["roundtrip-cli", "roundtrip-api-cli"]))
        return {"family": "G", "entry": entry, "eq": eq, "options": o}

    n = 8 if run.tier == "quick" else 48
    descs = corpus.collect(build(), n, run.seed + 1400, keyfn=lambda d: "%s/%s" % (d["entry"], d["eq"]["topology"]), oversample=12)
    cases = gridlab.run_cases(descs, timeout=900)
    for c in cases:
        run.bump("roundtrip/%s" % c.outcome)
        if c.outcome != "grid":
            run.count(c.desc, nontrivial=False)
            continue
        with open(os.path.join(c.path, "roundtrip.json")) as f:
            s = json.load(f)
        run.count(c.desc, nontrivial=s.get("second_run") == "grid", key="rt:" + gridlab.desc_id(c.desc))
        if len(run.samples) < 5:
            run.sample({"roundtrip": c.desc["options"], "topology": c.desc["eq"]["topology"]})
        if not s["geqdsk_identical"]:
            run.failure("C14/roundtrip/geqdsk-text-not-byte-identical", {}, {"desc": c.desc}, {})
        if not s["yaml_safe_loadable"]:
            run.failure("C14/roundtrip/yaml-not-loadable", {"error": s.get("yaml_error")}, {"desc": c.desc}, {})
            continue
        if s["missing_option_keys"]:
            run.failure("C14/roundtrip/yaml-incomplete", {"missing": s["missing_option_keys"][:20]}, {"desc": c.desc}, {})
        if s.get("second_run") != "grid":
            run.failure("C14/roundtrip/regeneration-failed", {"second_run": s.get("second_run")}, {"desc": c.desc}, {})
            continue
        g2 = gridlab.read_grid(os.path.join(c.path, "grid2.nc"))
        bad = compare_grids(c.nc, g2)
        if bad:
            run.failure("C14/roundtrip/regenerated-grid-differs", {"variables": bad[:20]}, {"desc": c.desc}, {})


def run(run):
    q = run.tier == "quick"
    for r in run_shards("vf.props.c14", "shard_inputs", [dict(seed=run.seed * 100 + i, n=30 if q else 400) for i in range(6)]):
        run.merge_shard(r)
    ref = fresh_fingerprint()
    jobs = [dict(seed=run.seed * 100 + i, max_examples=2 if q else 12, steps=4 if q else 6, reference=ref) for i in range(8)]
    for r in run_shards("vf.props.c14", "shard_machine", jobs):
        run.merge_shard(r)
    repeat_pairs(run)
    roundtrip(run)
    run.rule = RULE
    run.assumptions = [
        "only grid_id and version / provenance strings may differ between two generations",
        "probe grid for the history machine: a small circular grid with two q coefficients, fingerprint = sha256 of "
        "eight geometry arrays at three locations, reference computed in a fresh interpreter",
        "the round trip uses a harness-written geqdsk file of the analytic family and the hypnotoad-geqdsk / "
        "hypnotoad-recreate-inputs entry points' main() functions",
    ]


def replay(run, payload):
    case = payload["case"]
    if "flags" in case:
        for b, d, lab in check_inputs(case):
            run.failure(b, d, case, lab)
    else:
        print("replay: re-run the check (pairs / histories / round trips are compared)")
