"""C02 - metric tensor and Jacobian are the field-aligned metric, self-consistent."""

import numpy

from .. import corpus, gridcheck

LEVEL = "exploration"
RULE = (
    "shared gridlab corpus (all topologies reached, orthogonal and non-orthogonal, both signs of "
    "d(psi)/dr) restricted to cases with toroidal field for the y-z coupling clauses. non-trivial = "
    "grid written with Bt != 0; distinct = descriptor hash; the evidence lists the count per "
    "(orthogonal, bpsign) class - all four must be > 0 in the thorough tier."
)

CONTRA = ["g11", "g22", "g33", "g12", "g13", "g23"]
COV = ["g_11", "g_22", "g_33", "g_12", "g_13", "g_23"]


def mats(nc, suffix):
    g = {k: nc[k + suffix] for k in CONTRA + COV}
    shp = g["g11"].shape
    U = numpy.zeros(shp + (3, 3))
    L = numpy.zeros(shp + (3, 3))
    for (a, b), k in zip([(0, 0), (1, 1), (2, 2), (0, 1), (0, 2), (1, 2)], CONTRA):
        U[..., a, b] = g[k]
        U[..., b, a] = g[k]
    for (a, b), k in zip([(0, 0), (1, 1), (2, 2), (0, 1), (0, 2), (1, 2)], COV):
        L[..., a, b] = g[k]
        L[..., b, a] = g[k]
    return U, L


def check(case):
    nc, side = case.nc, case.side
    desc = case.desc
    cref = gridcheck.CaseRef(desc)
    ref = cref.ref
    fails = []
    margins = {}
    hist = []
    orth = bool(side["mesh_options"].get("orthogonal", True))
    bpsign = int(numpy.sign(nc["Bpxy"][0, 0]))
    has_bt = bool(numpy.any(nc["Btxy"] != 0.0))
    cls = "%s/bpsign%+d" % ("orth" if orth else "nonorth", bpsign)
    hist.append("class/" + cls + ("" if has_bt else "/Bt=0"))
    xpts = side.get("x_points", [])

    def fail(bucket, detail, labels=None):
        if not any(f[0] == bucket for f in fails):
            lab = {"orthogonal": orth, "bpsign": bpsign}
            lab.update(labels or {})
            fails.append((bucket, detail, lab))

    def margin(name, ratio):
        if numpy.isfinite(ratio):
            margins[name] = max(margins.get(name, 0.0), float(ratio))

    for suffix in ("", "_xlow", "_ylow"):
        loc = suffix or "_centre"
        U, L = mats(nc, suffix)
        if suffix == "_xlow" and not orth and not numpy.any(U[..., 1, 1]):
            fail(
                "C02/xlow-metric-not-computed/nonorth",
                {"note": "g22_xlow, g33_xlow, ... are all zero in the file"},
            )
            continue
        # (1) inverse
        P = numpy.einsum("...ij,...jk->...ik", U, L)
        res = numpy.abs(P - numpy.eye(3)).max(axis=(-1, -2))
        with numpy.errstate(all="ignore"):
            cond = numpy.linalg.cond(U)
        tol = numpy.minimum(1e-10 * cond, 1e-6)
        # round-off of the product itself: sum_k |U_ik| |L_kj| * 64 eps (cells of 1e-10 m next to an
        # X-point have components of 1e+19 and 1e-19 whose products cancel to 1)
        mag = numpy.einsum("...ij,...jk->...ik", numpy.abs(U), numpy.abs(L)).max(axis=(-1, -2))
        tol = numpy.maximum(tol, 64 * 2.2e-16 * mag)
        r = float(numpy.nanmax(res / tol))
        margin("inverse" + loc, r)
        if not r <= 1.0:
            i, j = numpy.unravel_index(int(numpy.nanargmax(res / tol)), res.shape)
            fail(
                "C02/not-inverse" + loc,
                {"ix": int(i), "iy": int(j), "residual": float(res[i, j]), "tol": float(tol[i, j])},
            )
        # (2) Jacobian
        J, hy, Bp = nc["J" + suffix], nc["hy" + suffix], nc["Bpxy" + suffix]
        e = numpy.abs(J - hy / Bp) / numpy.abs(J)
        margin("J=hy/Bp", e.max() / 1e-12)
        if e.max() > 1e-12:
            fail("C02/J-not-hy-over-Bp" + loc, {"max_rel": float(e.max())})
        det = numpy.linalg.det(U)
        with numpy.errstate(all="ignore"):
            e2 = numpy.abs(numpy.abs(J) * numpy.sqrt(det) - 1.0)
        margin("|J|sqrt(det)" + loc, numpy.nanmax(e2) / 1e-8)
        if not numpy.nanmax(e2) <= 1e-8:
            fail("C02/J-vs-det" + loc, {"max_rel": float(numpy.nanmax(e2))})
        # (3a) closed forms that do not involve beta
        R = nc["Rxy" + suffix]
        dphidy = nc["dphidy" + suffix]

        def cmp(name, got, want, rtol=1e-10):
            sc = numpy.abs(want) + 1e-300
            err = numpy.abs(got - want) / sc
            margin("closed-form", err.max() / rtol)
            if err.max() > rtol:
                i, j = numpy.unravel_index(int(numpy.argmax(err)), err.shape)
                fail(
                    "C02/closed-form/%s%s" % (name, loc),
                    {"ix": int(i), "iy": int(j), "got": float(got[i, j]), "want": float(want[i, j])},
                )

        cmp("g11", nc["g11" + suffix], (R * Bp) ** 2)
        cmp("g_33", nc["g_33" + suffix], R**2)
        cmp("g_22", nc["g_22" + suffix], hy**2 + (R * dphidy) ** 2)
        if orth:
            for k in ("g12", "g13", "g_12", "g_13"):
                if numpy.any(nc[k + suffix] != 0.0):
                    fail("C02/orthogonal-%s-nonzero%s" % (k, loc), {"max_abs": float(numpy.abs(nc[k + suffix]).max())})
            cmp("g22", nc["g22" + suffix], 1.0 / hy**2)
            cmp("g_11", nc["g_11" + suffix], 1.0 / (R * Bp) ** 2)
            cmp("g33", nc["g33" + suffix], 1.0 / R**2 + (dphidy / hy) ** 2)
        # y-z coupling against the toroidal shift of the same file: g_23 = g_33 dzShift/dy.
        # d(zShift)/dy = hy Bt/(R |Bp|) is what calcZShift integrates (documented), so the
        # point-wise form is compared exactly and the finite-difference form below ties it to
        # the stored zShift.
        if has_bt:
            want = nc["g_33" + suffix] * hy * nc["Btxy" + suffix] / (R * numpy.abs(Bp))
            got = nc["g_23" + suffix]
            err = numpy.abs(got - want) / (numpy.abs(want) + 1e-300)
            margin("g_23-pointwise", err.max() / 1e-9)
            if err.max() > 1e-9:
                i, j = numpy.unravel_index(int(numpy.argmax(err)), err.shape)
                fail(
                    "C02/g_23-vs-zShift-integrand%s/%s" % (loc, cls),
                    {"ix": int(i), "iy": int(j), "g_23": float(got[i, j]), "g_33*hy*Bt/(R|Bp|)": float(want[i, j])},
                )

    # (3b) beta-dependent closed forms and (4) finite-difference geometry, per region
    nfd = 0
    for rid, reg in side["regions"].items():
        f = reg["fields"]
        (xs, xe), (ys, ye) = side["region_indices"][rid]
        Rx, Zx = f["Rxy"]["xlow"], f["Zxy"]["xlow"]
        Rc, Zc = f["Rxy"]["centre"], f["Zxy"]["centre"]
        Ry, Zy = f["Rxy"]["ylow"], f["Zxy"]["ylow"]
        Rk, Zk = f["Rxy"]["corners"], f["Zxy"]["corners"]
        pv = reg["psi_vals"]
        dx = (pv[2::2] - pv[:-2:2])[:, None]
        sx = numpy.sign(dx[0, 0])
        # measured beta: centre from xlow neighbours, ylow from corner neighbours
        for loc, (A_R, A_Z, P_R, P_Z, sfx, ysl) in {
            "centre": (Rx, Zx, Rc, Zc, "", slice(None)),
            "ylow": (Rk, Zk, Ry, Zy, "_ylow", slice(None, -1)),
        }.items():
            ex = numpy.stack([A_R[1:] - A_R[:-1], A_Z[1:] - A_Z[:-1]], -1)
            exh = ex / numpy.linalg.norm(ex, axis=-1, keepdims=True)
            gR, gZ = ref.dR(P_R, P_Z), ref.dZ(P_R, P_Z)
            gn = numpy.hypot(gR, gZ)
            gh = numpy.stack([gR / gn, gZ / gn], -1)
            # e_x points towards increasing x = increasing radial index
            cosb = numpy.abs((exh * gh).sum(-1))
            sinb = (exh[..., 0] * gh[..., 1] - exh[..., 1] * gh[..., 0]) * 1.0
            tanb = numpy.abs(sinb) / cosb
            hyv = nc["hy" + sfx][xs:xe, ys:ye]
            Rv = nc["Rxy" + sfx][xs:xe, ys:ye]
            Bpv = nc["Bpxy" + sfx][xs:xe, ys:ye]
            dph = nc["dphidy" + sfx][xs:xe, ys:ye]
            cosb_, tanb_ = cosb[:, ysl], tanb[:, ysl]
            near = gridcheck.near_xpoint_mask(P_R[:, ysl], P_Z[:, ysl], xpts, 0.0)
            if orth:
                m = float(numpy.max(1.0 - cosb_))
                hist.append("orth-cos-beta-deficit/%s" % ("<1e-6" if m < 1e-6 else "<1e-3" if m < 1e-3 else ">=1e-3"))
                continue

            def cmpb(name, got, want, rtol=1e-8, atol=0.0):
                # atol: absolute floor (round-off of the measured angle where tan(beta) ~ 0)
                err = numpy.maximum(numpy.abs(got - want) - atol, 0.0) / (numpy.abs(want) + 1e-300)
                err = numpy.where(near, 0.0, err)
                margin("closed-form-beta", err.max() / rtol)
                if err.max() > rtol:
                    i, j = numpy.unravel_index(int(numpy.argmax(err)), err.shape)
                    fail(
                        "C02/closed-form-beta/%s_%s" % (name, loc),
                        {"region": reg["name"], "ix": int(i), "iy": int(j), "got": float(got[i, j]), "want": float(want[i, j])},
                    )

            cmpb("g22", nc["g22" + sfx][xs:xe, ys:ye], 1.0 / (hyv * cosb_) ** 2)
            cmpb("g_11", nc["g_11" + sfx][xs:xe, ys:ye], 1.0 / (Rv * Bpv * cosb_) ** 2)
            cmpb("|g_12|", numpy.abs(nc["g_12" + sfx][xs:xe, ys:ye]), hyv * tanb_ / (Rv * numpy.abs(Bpv)), rtol=1e-7,
                 atol=1e-10 * hyv / (Rv * numpy.abs(Bpv)))
            cmpb("g33", nc["g33" + sfx][xs:xe, ys:ye], 1.0 / Rv**2 + (dph / (hyv * cosb_)) ** 2)
        # (4) displacement scalar products at interior centres (sign-convention free)
        nxr, nyr = Rc.shape
        if nxr >= 3 and nyr >= 3:
            dyv = float(nc["dy"][0, 0])
            i0, i1 = 1, nxr - 1
            j0, j1 = 1, nyr - 1
            dxc = dx[i0:i1]
            # e_x: two stencils (h = dx via x faces, h = 2dx via neighbouring centres)
            ex1 = numpy.stack([(Rx[i0 + 1 : i1 + 1] - Rx[i0:i1]) / dxc, (Zx[i0 + 1 : i1 + 1] - Zx[i0:i1]) / dxc], -1)[:, j0:j1]
            xc = pv[1::2]
            d2 = (xc[i0 + 1 : i1 + 1] - xc[i0 - 1 : i1 - 1])[:, None]
            ex2 = numpy.stack([(Rc[i0 + 1 : i1 + 1] - Rc[i0 - 1 : i1 - 1]) / d2, (Zc[i0 + 1 : i1 + 1] - Zc[i0 - 1 : i1 - 1]) / d2], -1)[:, j0:j1]
            ey1 = numpy.stack([(Ry[:, j0 + 1 : j1 + 1] - Ry[:, j0:j1]) / dyv, (Zy[:, j0 + 1 : j1 + 1] - Zy[:, j0:j1]) / dyv], -1)[i0:i1]
            ey2 = numpy.stack([(Rc[:, j0 + 1 : j1 + 1] - Rc[:, j0 - 1 : j1 - 1]) / (2 * dyv), (Zc[:, j0 + 1 : j1 + 1] - Zc[:, j0 - 1 : j1 - 1]) / (2 * dyv)], -1)[i0:i1]
            sl = (slice(xs + i0, xs + i1), slice(ys + j0, ys + j1))
            g_11, g_12, g_22 = nc["g_11"][sl], nc["g_12"][sl], nc["g_22"][sl]
            Rv, dph = nc["Rxy"][sl], nc["dphidy"][sl]

            def band(a1, a2, var=0.0):
                return 2.0 * numpy.abs(a2 - a1) + 0.02 * numpy.abs(a1) + 2.0 * var

            # variation of 1/(grad psi . e_x_hat)^2 along the chord between the two x faces:
            # the metric holds the point value at the centre, the displacement the chord average
            pa = numpy.stack([Rx[i0:i1], Zx[i0:i1]], -1)[:, j0:j1]
            pb = numpy.stack([Rx[i0 + 1 : i1 + 1], Zx[i0 + 1 : i1 + 1]], -1)[:, j0:j1]
            ch = pb - pa
            chh = ch / numpy.linalg.norm(ch, axis=-1, keepdims=True)
            qs = []
            for tt in (0.0, 0.5, 1.0):
                pp = pa + tt * ch
                gd = ref.dR(pp[..., 0], pp[..., 1]) * chh[..., 0] + ref.dZ(pp[..., 0], pp[..., 1]) * chh[..., 1]
                qs.append(1.0 / gd**2)
            var11 = numpy.maximum(numpy.abs(qs[0] - qs[1]), numpy.abs(qs[2] - qs[1]))

            q11_1, q11_2 = (ex1**2).sum(-1), (ex2**2).sum(-1)
            q22_1, q22_2 = (ey1**2).sum(-1), (ey2**2).sum(-1)
            q12_1, q12_2 = (ex1 * ey1).sum(-1), (ex2 * ey2).sum(-1)
            nfd += q11_1.size
            # chord vs arc: hy is an arc length, the displacement between the y faces a chord;
            # the polyline through the cell centre estimates the difference
            half = numpy.hypot(Rc[i0:i1, j0:j1] - Ry[i0:i1, j0:j1], Zc[i0:i1, j0:j1] - Zy[i0:i1, j0:j1]) + numpy.hypot(
                Ry[i0:i1, j0 + 1 : j1 + 1] - Rc[i0:i1, j0:j1], Zy[i0:i1, j0 + 1 : j1 + 1] - Zc[i0:i1, j0:j1]
            )
            var22 = numpy.abs((half / dyv) ** 2 - q22_1)
            for name, got, q1, q2, var in (
                ("g_11", g_11, q11_1, q11_2, var11),
                ("g_22-poloidal", g_22 - (Rv * dph) ** 2, q22_1, q22_2, var22),
            ):
                b = band(q1, q2, var)
                ratio = numpy.abs(got - q1) / b
                margin("fd-" + name, ratio.max())
                if ratio.max() > 1.0:
                    i, j = numpy.unravel_index(int(numpy.argmax(ratio)), ratio.shape)
                    fail(
                        "C02/displacement/%s/%s" % (name, "orth" if orth else "nonorth"),
                        {"region": reg["name"], "ix": int(i + i0), "iy": int(j + j0), "metric": float(got[i, j]), "fd_h": float(q1[i, j]), "fd_2h": float(q2[i, j])},
                    )
            # the same at the ylow location, including the first y-face of the region, whose lower
            # neighbour's last cell centre lies in another region (X-point joins, branch cut):
            # poloidal part of g_22_ylow vs the displacement between the two adjacent cell centres
            lower = side["connections"][rid].get("lower")
            Rl = Zl = None
            if lower is not None:
                fl = side["regions"][lower]["fields"]
                Rl, Zl = fl["Rxy"]["centre"][:, -1], fl["Zxy"]["centre"][:, -1]
            jlo = 0 if Rl is not None else 1
            if nyr - jlo >= 1:
                Rprev = numpy.concatenate([Rl[:, None], Rc[:, :-1]], axis=1) if Rl is not None else numpy.concatenate([Rc[:, :1], Rc[:, :-1]], axis=1)
                Zprev = numpy.concatenate([Zl[:, None], Zc[:, :-1]], axis=1) if Zl is not None else numpy.concatenate([Zc[:, :1], Zc[:, :-1]], axis=1)
                Ryl, Zyl = Ry[:, :nyr], Zy[:, :nyr]
                chord = numpy.hypot(Rc - Rprev, Zc - Zprev)
                poly = numpy.hypot(Ryl - Rprev, Zyl - Zprev) + numpy.hypot(Rc - Ryl, Zc - Zyl)
                qa, qb = (poly / dyv) ** 2, (chord / dyv) ** 2
                sly = (slice(xs, xe), slice(ys, ye))
                got = nc["g_22_ylow"][sly] - (nc["Rxy_ylow"][sly] * nc["dphidy_ylow"][sly]) ** 2
                nearx = gridcheck.near_xpoint_mask(Ryl, Zyl, xpts, 0.0)
                b = 2.0 * numpy.abs(qa - qb) + 0.03 * qa
                # hy is a difference of distances interpolated on the FineContour (spacing hfc): a chord
                # of that spacing misses the arc by kappa hfc^2 / 8 (kappa from the three points; safety 4),
                # which matters for the millimetre cells next to an X-point
                hfc = f["hy"]["centre"].sum(axis=1, keepdims=True) * dyv / float(side["mesh_options"].get("finecontour_Nfine", 100))
                a_ = numpy.hypot(Ryl - Rprev, Zyl - Zprev)
                b_ = numpy.hypot(Rc - Ryl, Zc - Zyl)
                area2 = numpy.abs((Ryl - Rprev) * (Zc - Zprev) - (Rc - Rprev) * (Zyl - Zprev))
                kappa = 2.0 * area2 / numpy.maximum(a_ * b_ * chord, 1e-300)
                b = b + 2.0 * poly * (4.0 * kappa * hfc**2 / 8.0) / dyv**2
                if Rl is not None and "contour_first" in reg and "contour_last" in side["regions"][lower]:
                    # at a join the stored face is the upper region's point; hy is measured to each
                    # region's own contour end, up to a few 1e-4 m away next to an X-point (the
                    # listed finding C05-xpoint-join-face-gap): widen by that distance
                    own = numpy.asarray(reg["contour_first"])[1::2]
                    nb = numpy.asarray(side["regions"][lower]["contour_last"])[1::2]
                    face = numpy.stack([Ry[:, 0], Zy[:, 0]], -1)
                    gap = numpy.maximum(numpy.linalg.norm(own - face, axis=-1), numpy.linalg.norm(nb - face, axis=-1))
                    b[:, 0] += 4.0 * poly[:, 0] * gap / dyv**2
                ratio = numpy.abs(got - qa) / b
                ratio = numpy.where(nearx, 0.0, ratio)[i0:i1, jlo:]
                if ratio.size:
                    margin("fd-g_22-poloidal-ylow", ratio.max())
                    if ratio.max() > 1.0:
                        i, j = numpy.unravel_index(int(numpy.argmax(ratio)), ratio.shape)
                        fail(
                            "C02/displacement/g_22-poloidal-ylow/%s" % ("orth" if orth else "nonorth"),
                            {"region": reg["name"], "ix": int(i + i0), "iy": int(j + jlo), "at_region_join": bool(j + jlo == 0),
                             "metric": float(got[i + i0, j + jlo]), "polyline": float(qa[i + i0, j + jlo]), "chord": float(qb[i + i0, j + jlo])},
                        )
            # g_12 = e_x.e_y (poloidal part; the toroidal part is I*... = 0 for shifted metric)
            cosang = q12_1 / numpy.sqrt(q11_1 * q22_1)
            b = band(q12_1, q12_2) + 0.02 * numpy.sqrt(q11_1 * q22_1)
            ratio = numpy.abs(g_12 - q12_1) / b
            # only where the displacements resolve the geometry: both stencils give the same e_x.e_y
            # within 50%, and the y-face chord is within 5% of the polyline through the cell centre (a
            # closed surface gridded with 4 cells has no meaningful tangent)
            resolved = (numpy.sign(q12_1) == numpy.sign(q12_2)) & (numpy.abs(q12_1 - q12_2) < 0.5 * numpy.abs(q12_1)) & (var22 < 0.1 * q22_1)
            sel = (numpy.abs(cosang) > 0.05) & resolved
            if orth:
                # on orthogonal grids g_12 = 0 is asserted exactly above; how orthogonal the
                # displacements are is C04's subject
                sel = numpy.zeros_like(sel)
            hist.append("g_12-sign-testable-points/%s" % ("0" if not sel.any() else ">0"))
            if sel.any():
                # contravariant counterpart from the dual basis of the same displacements
                def perp(v):
                    return numpy.stack([v[..., 1], -v[..., 0]], -1)

                gx = perp(ey1) / (perp(ey1) * ex1).sum(-1, keepdims=True)
                gy = perp(ex1) / (perp(ex1) * ey1).sum(-1, keepdims=True)
                m12 = (gx * gy).sum(-1)
                g12f = nc["g12"][sl]
                bad = sel & (numpy.sign(m12) != numpy.sign(g12f)) & (numpy.abs(cosang) > 0.1)
                if bad.any():
                    i, j = numpy.unravel_index(int(numpy.argmax(bad)), bad.shape)
                    fail(
                        "C02/displacement/g12-sign/%s" % cls,
                        {"region": reg["name"], "ix": int(i + i0), "iy": int(j + j0), "g12": float(g12f[i, j]), "gradx.grady": float(m12[i, j])},
                    )
                margin("fd-g_12", ratio[sel].max())
                if ratio[sel].max() > 1.0:
                    rr = numpy.where(sel, ratio, 0.0)
                    i, j = numpy.unravel_index(int(numpy.argmax(rr)), rr.shape)
                    fail(
                        "C02/displacement/g_12/%s" % cls,
                        {"region": reg["name"], "ix": int(i + i0), "iy": int(j + j0), "g_12": float(g_12[i, j]), "ex.ey": float(q12_1[i, j]), "cos_angle": float(cosang[i, j])},
                    )
            # g_23/g_33 vs finite difference of the stored zShift
            if has_bt:
                zy = f["zShift"]["ylow"]
                zc = f["zShift"]["centre"]
                d1 = ((zy[:, j0 + 1 : j1 + 1] - zy[:, j0:j1]) / dyv)[i0:i1]
                d2z = ((zc[:, j0 + 1 : j1 + 1] - zc[:, j0 - 1 : j1 - 1]) / (2 * dyv))[i0:i1]
                got = nc["g_23"][sl] / nc["g_33"][sl]
                # zShift is a cell average of the integrand (trapezoid rule on the FineContour of
                # spacing hf), g_23/g_33 its value at the cell centre: allow the variation of the
                # integrand over the cell (Simpson vs midpoint), amplified when the FineContour
                # is coarser than the cell
                dpy = f["dphidy"]["ylow"]
                dpc = f["dphidy"]["centre"]
                simp = (dpy[:, j0:j1] + 4.0 * dpc[:, j0:j1] + dpy[:, j0 + 1 : j1 + 1])[i0:i1] / 6.0
                var = numpy.abs(numpy.abs(simp) - numpy.abs(dpc[i0:i1, j0:j1]))
                var = numpy.maximum(var, numpy.abs(numpy.abs(dpy[i0:i1, j0:j1]) - numpy.abs(dpy[i0:i1, j0 + 1 : j1 + 1])) / 8.0)
                hyc = f["hy"]["centre"]
                hf = (hyc.sum(axis=1, keepdims=True) * dyv / float(side["mesh_options"].get("finecontour_Nfine", 100)))[i0:i1]
                hc = (hyc * dyv)[i0:i1, j0:j1]
                amp = numpy.maximum(1.0, (hf / hc) ** 2)
                b = band(d1, d2z, var * amp)
                ratio = numpy.abs(got - d1) / b
                margin("fd-g_23", ratio.max())
                if ratio.max() > 1.0:
                    i, j = numpy.unravel_index(int(numpy.argmax(ratio)), ratio.shape)
                    fail(
                        "C02/g_23-vs-zShift-difference/%s" % cls,
                        {"region": reg["name"], "ix": int(i + i0), "iy": int(j + j0), "g_23/g_33": float(got[i, j]), "dzShift/dy": float(d1[i, j]), "fd_2h": float(d2z[i, j])},
                    )
    hist.append("fd-points/%s" % ("0" if nfd == 0 else "<50" if nfd < 50 else ">=50"))
    return {"fails": fails, "nontrivial": has_bt, "margins": margins, "hist": hist}


def nonorth_stratum(tier):
    """Non-orthogonal grids large enough to have interior points with a measurable angle."""
    out = []
    tops = ["cdn", "usn"] if tier == "quick" else ["cdn", "usn", "lsn", "ldn", "udn"]
    for top in tops:
        for sign in (1.0, -1.0):
            o = {"orthogonal": False, "nx_core": 3, "nx_sol": 3, "finecontour_Nfine": 60}
            if top in ("usn", "lsn"):
                o.update(ny_inner_divertor=5, ny_outer_divertor=5, ny_sol=10)
            else:
                o.update({k: 5 for k in ["ny_inner_lower_divertor", "ny_inner_upper_divertor", "ny_outer_lower_divertor", "ny_outer_upper_divertor", "ny_inner_sol", "ny_outer_sol"]})
                if top in ("ldn", "udn"):
                    o["nx_inter_sep"] = 1
            out.append({"family": "G", "eq": {"topology": top, "sign": sign, "fpol": [2.0, 0.1, 0, 0]}, "options": o})
    return out


def run(run):
    descs = corpus.base_corpus(run.tier, run.seed) + nonorth_stratum(run.tier)
    gridcheck.run_corpus_property(run, "vf.props.c02", "check", descs)
    run.rule = RULE
    run.assumptions = [
        "closed forms use hy, Bpxy, dphidy, Rxy of the same file and a non-orthogonality angle measured by "
        "the harness from the grid positions (x-face neighbours at centres, corner neighbours at ylow) "
        "against grad(psi) of the harness' reference field",
        "finite-difference clauses use two stencils (h, 2h); band = 2|D(2h)-D(h)| + 2%; evaluated at "
        "interior cell centres of every region",
        "d(zShift)/dy = hy*Bt/(R|Bp|) (what the documented zShift integrates)",
    ]


def replay(run, payload):
    gridcheck.replay_corpus_property(run, "vf.props.c02", "check", payload)
