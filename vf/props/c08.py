"""C08 - block topology, branch-cut indices and global index map are consistent."""

import numpy

from .. import boutmodel as bm
from .. import corpus, gridcheck

LEVEL = "exploration"
RULE = (
    "shared gridlab corpus plus a topology-emphasis corpus (per-region ny drawn independently "
    "from 3..14 with a forced quota of strongly unequal legs, guards 0..3, nx per segment 1..4, "
    "start_at_upper_outer, circular). non-trivial = a grid with at least one X-point (branch cut) "
    "or a periodic core; distinct = descriptor hash. Oracle: reference model of BOUT++'s reading "
    "of the seven topology integers vs the cell adjacency exhibited by the four corner arrays."
)
ATOL = 1.0e-7  # the mesh's own coincidence tolerance (MeshRegion.atol), y joins
# points on a shared x edge are produced independently by the two regions (perpendicular
# following / regridding + refinement): 100 x follow_perpendicular_atol (1e-8)
XTOL = 1.0e-6


def geometric_up_neighbours(nc):
    """For every cell of the file arrays the list of cells whose lower edge coincides with
    its upper edge."""
    ul = numpy.stack([nc["Rxy_upper_left_corners"], nc["Zxy_upper_left_corners"]], -1)
    ur = numpy.stack([nc["Rxy_upper_right_corners"], nc["Zxy_upper_right_corners"]], -1)
    ll = numpy.stack([nc["Rxy_corners"], nc["Zxy_corners"]], -1)
    lr = numpy.stack([nc["Rxy_lower_right_corners"], nc["Zxy_lower_right_corners"]], -1)
    nx, ny = ul.shape[:2]
    up = {}
    for x in range(nx):
        # only cells in the same x column can be y-neighbours (x faces are shared psi values)
        a = ul[x][:, None, :] - ll[x][None, :, :]
        b = ur[x][:, None, :] - lr[x][None, :, :]
        m = (numpy.abs(a).max(-1) < ATOL) & (numpy.abs(b).max(-1) < ATOL)
        for y in range(ny):
            up[(x, y)] = [int(j) for j in numpy.nonzero(m[y])[0]]
    return up


def check(case):
    nc, side = case.nc, case.side
    fails = []
    hist = []
    t = bm.topology_from_file(nc)
    nx, ny_file = nc["Rxy"].shape
    myg = t["myg"]
    dn = side.get("double_null_type")
    cls = "%s/%s" % (
        "orth" if side["mesh_options"].get("orthogonal", True) else "nonorth",
        "disconnected" if dn in ("lower", "upper") else ("connected" if dn == "connected" else "other"),
    )
    margins = {}

    def fail(bucket, detail, labels=None):
        if not any(f[0] == bucket for f in fails):
            fails.append((bucket, detail, labels or {}))

    # (1) tiling and connections ------------------------------------------------------
    cover = numpy.zeros((nx, ny_file), dtype=int)
    for rid, ((xs, xe), (ys, ye)) in side["region_indices"].items():
        cover[xs:xe, ys:ye] += 1
    if not numpy.all(cover == 1):
        fail("C08/tiling", {"min": int(cover.min()), "max": int(cover.max())})
    if t["nx"] != nx:
        fail("C08/nx-mismatch", {"nx": t["nx"], "array": nx})
    nguard_cells = ny_file - t["ny"]
    conn = side["connections"]
    opposite = {"inner": "outer", "outer": "inner", "lower": "upper", "upper": "lower"}
    T_psi = gridcheck.refine_tolerance(case)
    for rid, c in conn.items():
        for face, other in c.items():
            if other is None:
                continue
            if conn[other].get(opposite[face]) != rid:
                fail("C08/connection-asymmetric", {"region": rid, "face": face, "other": other})
            a, b = side["regions"][rid], side["regions"][other]
            if face in ("lower", "upper") and a["nx"] != b["nx"]:
                fail("C08/join-size", {"region": rid, "face": face})
            if face in ("inner", "outer") and a["ny"] != b["ny"]:
                fail("C08/join-size", {"region": rid, "face": face})
            # points on the shared edge coincide
            fa, fb = a["fields"], b["fields"]
            if face == "upper":
                d = max(
                    numpy.abs(fa["Rxy"]["corners"][:, -1] - fb["Rxy"]["corners"][:, 0]).max(),
                    numpy.abs(fa["Zxy"]["corners"][:, -1] - fb["Zxy"]["corners"][:, 0]).max(),
                    numpy.abs(fa["Rxy"]["ylow"][:, -1] - fb["Rxy"]["ylow"][:, 0]).max(),
                    numpy.abs(fa["Zxy"]["ylow"][:, -1] - fb["Zxy"]["ylow"][:, 0]).max(),
                )
                margins["shared-edge-y"] = max(margins.get("shared-edge-y", 0.0), float(d) / ATOL)
                if d > ATOL:
                    fail("C08/shared-edge-y", {"region": a["name"], "other": b["name"], "dist": float(d)})
            if face == "outer":
                d = max(
                    numpy.abs(fa["Rxy"]["corners"][-1, :] - fb["Rxy"]["corners"][0, :]).max(),
                    numpy.abs(fa["Zxy"]["corners"][-1, :] - fb["Zxy"]["corners"][0, :]).max(),
                    numpy.abs(fa["Rxy"]["xlow"][-1, :] - fb["Rxy"]["xlow"][0, :]).max(),
                    numpy.abs(fa["Zxy"]["xlow"][-1, :] - fb["Zxy"]["xlow"][0, :]).max(),
                )
                # each region refines its own copy of the shared contour to refine_atol in psi: the two
                # copies may differ by that tolerance over the local |grad psi| (estimated from the
                # radial face spacing of the two regions)
                dpsi = min(abs(float(a["psi_vals"][-1] - a["psi_vals"][-3])), abs(float(b["psi_vals"][2] - b["psi_vals"][0])))
                dr = max(
                    float(numpy.hypot(fa["Rxy"]["xlow"][-1, :] - fa["Rxy"]["xlow"][-2, :], fa["Zxy"]["xlow"][-1, :] - fa["Zxy"]["xlow"][-2, :]).max()),
                    float(numpy.hypot(fb["Rxy"]["xlow"][1, :] - fb["Rxy"]["xlow"][0, :], fb["Zxy"]["xlow"][1, :] - fb["Zxy"]["xlow"][0, :]).max()),
                )
                xtol = max(XTOL, 2.0 * T_psi * dr / max(dpsi, 1e-300))
                margins["shared-edge-x/" + cls] = max(margins.get("shared-edge-x/" + cls, 0.0), float(d) / xtol)
                if d > xtol:
                    fail(
                        "C08/shared-edge-x/" + cls,
                        {"region": a["name"], "other": b["name"], "dist": float(d), "tol": xtol},
                        {"class": cls},
                    )

    # (3) ordering ---------------------------------------------------------------------
    probs = bm.ordering_problems(t)
    double = t["jyseps2_1"] != t["jyseps1_2"]
    topo = "double" if double else ("single" if t["jyseps1_1"] >= 0 else "noX")
    hist.append("topology/%s/guards%d" % (topo, min(myg, 1)))
    if probs:
        fail(
            "C08/index-ordering/%s" % topo,
            {"problems": probs, "indices": {k: t[k] for k in t}},
            {"topology": topo},
        )
    expected_guards = (4 if double else 2) * myg
    if topo == "noX" and t["ixseps1"] >= nx:
        expected_guards = 0  # periodic core: no targets
    if nguard_cells != expected_guards:
        fail("C08/guard-count", {"ny_file": ny_file, "ny": t["ny"], "myg": myg, "topology": topo})

    # (2) adjacency from corner coordinates vs BOUT++ model -----------------------------
    if not probs and nguard_cells == expected_guards:
        up = geometric_up_neighbours(nc)
        bad = None
        ambiguous = [0]
        for y in range(t["ny"]):
            yf = bm.file_y(t, y)
            for x in range(nx):
                model = bm.up_neighbour(t, x, y)
                geo = up[(x, yf)]
                geo_b = []
                for g in geo:
                    gb = bm.bout_y(t, g)
                    geo_b.append("guard" if gb is None else gb)
                if model is bm.TARGET:
                    ok = all(g == "guard" for g in geo_b) and len(geo_b) <= 1
                    if myg > 0 and len(geo_b) != 1:
                        ok = False
                else:
                    ok = geo_b == [model]
                    if not ok and model in geo_b:
                        # a cell shorter than the coincidence tolerance (the 'monotonic' spacing can
                        # produce 1e-10 m cells next to an X-point) has its lower and upper edge in the
                        # same place: the geometry then offers several neighbours, the model's among them
                        hyd = nc["hy"] * nc["dy"]
                        tiny = [g for g in geo if float(hyd[x, g]) < 10 * ATOL or float(hyd[x, yf]) < 10 * ATOL]
                        if tiny:
                            ok = True
                            ambiguous[0] += 1
                if not ok and bad is None:
                    bad = {"x": x, "y": y, "model_up": model, "geometric_up": geo_b}
        if ambiguous[0]:
            hist.append("adjacency-y/ambiguous-by-degenerate-cells")
        if bad is not None:
            fail("C08/adjacency-y/%s" % topo, dict(bad, indices={k: t[k] for k in t}), {"topology": topo})
        # x adjacency
        dx1 = numpy.abs(nc["Rxy_lower_right_corners"][:-1] - nc["Rxy_corners"][1:]).max() if nx > 1 else 0.0
        dx2 = numpy.abs(nc["Zxy_lower_right_corners"][:-1] - nc["Zxy_corners"][1:]).max() if nx > 1 else 0.0
        dx3 = numpy.abs(nc["Rxy_upper_right_corners"][:-1] - nc["Rxy_upper_left_corners"][1:]).max() if nx > 1 else 0.0
        dx4 = numpy.abs(nc["Zxy_upper_right_corners"][:-1] - nc["Zxy_upper_left_corners"][1:]).max() if nx > 1 else 0.0
        if max(dx1, dx2, dx3, dx4) > XTOL:
            fail("C08/adjacency-x/" + cls, {"max_gap": float(max(dx1, dx2, dx3, dx4)), "tol": XTOL}, {"class": cls})

    # (4) coordinates ---------------------------------------------------------------------
    dy = nc["dy"]
    yc = nc["y-coord"]
    want = numpy.concatenate([numpy.zeros((nx, 1)), numpy.cumsum(dy, axis=1)[:, :-1]], axis=1)
    if numpy.abs(yc - want).max() > 1e-12 * (1 + numpy.abs(want).max()):
        fail("C08/y-coord", {"max_diff": float(numpy.abs(yc - want).max())})
    if not probs and nguard_cells == expected_guards:
        th = nc["theta_ylow"]
        # an isolated X-point (TORPEX) has no core cells at all
        ncore = bm.n_core_cells(t)
        has_core = t["ixseps1"] > 0 and ncore > 0
        if has_core and (topo != "noX" or t["ixseps1"] >= nx):
            first = bm.file_y(t, t["jyseps1_1"] + 1)
            j22 = min(t["jyseps2_2"], t["ny"] - 1)
            last_face = bm.file_y(t, j22) + 1  # upper face of the last core cell
            if abs(float(th[0, first])) > 1e-12:
                fail("C08/theta-zero", {"theta_first_core_face": float(th[0, first])})
            if last_face < th.shape[1]:
                v = float(th[0, last_face])
            else:
                v = float(th[0, -1] + dy[0, -1])
            if abs(v - 2 * numpy.pi) > 1e-10:
                fail("C08/theta-2pi/%s" % topo, {"theta_last_core_face": v, "indices": {k: t[k] for k in t}}, {"topology": topo})
            # in between: round the core in BOUT++'s y order (inner core, then across the upper legs
            # to the outer core) theta advances by dy per cell; theta and theta_xlow sit half a cell
            # above theta_ylow
            ys_core = [y for y in range(t["ny"]) if bm.is_core_cell(t, 0, y)]
            acc = 0.0
            for y in ys_core:
                yf = bm.file_y(t, y)
                for name, off in (("theta_ylow", 0.0), ("theta", 0.5), ("theta_xlow", 0.5)):
                    got = float(nc[name][0, yf])
                    wantv = acc + off * float(dy[0, yf])
                    if abs(got - wantv) > 1e-10:
                        fail(
                            "C08/theta-not-cumulative-dy/%s/guards%s" % (topo, ">0" if myg > 0 else "=0"),
                            {"variable": name, "bout_y": y, "yfile": yf, "got": got, "want": wantv},
                            {"topology": topo},
                        )
                acc += float(dy[0, yf])
        # chi: NaN exactly on open cells (guards included); chi = 2 pi zShift/ShiftAngle is 0/0
        # when there is no toroidal field, so the clause needs Bt != 0
        has_bt = bool(numpy.any(nc["Btxy"] != 0.0))
        hist.append("chi-clause/%s" % ("checked" if has_bt else "skipped-Bt=0"))
        for name in ("chi", "chi_xlow", "chi_ylow") if has_bt else ():
            chi = nc[name]
            bad = None
            for yf in range(ny_file):
                y = bm.bout_y(t, yf)
                for x in range(nx):
                    closed = y is not None and bm.is_core_cell(t, x, y)
                    if name == "chi_xlow" and closed:
                        pass
                    isnan = bool(numpy.isnan(chi[x, yf]))
                    if closed and isnan:
                        bad = bad or {"x": x, "yfile": yf, "expected": "finite", "got": "nan"}
                    if (not closed) and not isnan:
                        bad = bad or {"x": x, "yfile": yf, "expected": "nan", "got": float(chi[x, yf])}
            if bad is not None:
                fail(
                    "C08/chi-nan-mask/%s/guards%s" % (topo, ">0" if myg > 0 else "=0"),
                    dict(bad, var=name, myg=myg),
                    {"topology": topo, "guards": myg > 0},
                )
        # chi increasing 0 -> 2 pi round the core
        chi = nc["chi_ylow"]
        core_faces = []
        if has_bt and has_core and (topo != "noX" or t["ixseps1"] >= nx):
            ix_in = min(t["ixseps1"], t["ixseps2"]) if double else t["ixseps1"]
            ix_in = min(ix_in, nx)
            ys = [y for y in range(t["ny"]) if bm.is_core_cell(t, 0, y)]
            vals = numpy.array([[chi[x, bm.file_y(t, y)] for y in ys] for x in range(ix_in)])
            if vals.size and numpy.all(numpy.isfinite(vals)):
                if abs(vals[:, 0]).max() > 1e-9 or not numpy.all(numpy.diff(vals, axis=1) > 0) or vals.max() >= 2 * numpy.pi:
                    fail("C08/chi-range", {"first": vals[:, 0].tolist(), "max": float(vals.max())})
    nontrivial = topo != "noX" or t["ixseps1"] >= nx
    legs = side.get("mesh_y_regions_noguards", [])
    if legs:
        r = max(legs) / max(1, min(legs))
        hist.append("ny-ratio/%s" % ("<2" if r < 2 else "<4" if r < 4 else ">=4"))
    return {"fails": fails, "nontrivial": nontrivial, "hist": hist, "margins": margins}


def topo_emphasis(tier, seed):
    """Topology-emphasis corpus: cheap orthogonal spline grids with strongly unequal regions."""
    from hypothesis import strategies as st

    @st.composite
    def build(draw):
        top = draw(st.sampled_from(["lsn", "usn", "cdn", "udn", "ldn"]))
        eq = {"topology": top, "sign": draw(st.sampled_from([1.0, -1.0])), "nR": 65, "nZ": 65,
              "fpol": [2.0, 0.05, 0.0, 0.0], "wall": {"kind": "rect"}}
        o = {
            "orthogonal": True,
            "finecontour_Nfine": 40,
            "y_boundary_guards": draw(st.sampled_from([0, 1, 2, 3])),
            "nx_core": draw(st.integers(1, 3)),
            "nx_sol": draw(st.integers(1, 3)),
            "psinorm_core": 0.9,
            "psinorm_sol": 1.1,
            "psinorm_pf": 0.92,
            "target_all_poloidal_spacing_length": 0.5,
            "xpoint_poloidal_spacing_length": 0.08,
        }
        small = st.integers(3, 4)
        big = st.integers(8, 14)
        anyn = st.one_of(small, big, st.integers(3, 8))
        pattern = draw(st.sampled_from(["long-outer", "long-inner", "any", "long-core"]))
        if top in ("lsn", "usn"):
            if pattern == "long-outer":
                o.update(ny_inner_divertor=draw(small), ny_sol=draw(small), ny_outer_divertor=draw(big))
            elif pattern == "long-inner":
                o.update(ny_inner_divertor=draw(big), ny_sol=draw(small), ny_outer_divertor=draw(small))
            elif pattern == "long-core":
                o.update(ny_inner_divertor=draw(small), ny_sol=draw(big), ny_outer_divertor=draw(small))
            else:
                o.update(ny_inner_divertor=draw(anyn), ny_sol=draw(anyn), ny_outer_divertor=draw(anyn))
        else:
            keys = ["ny_inner_lower_divertor", "ny_inner_sol", "ny_inner_upper_divertor",
                    "ny_outer_upper_divertor", "ny_outer_sol", "ny_outer_lower_divertor"]
            for k in keys:
                o[k] = draw(anyn)
            if pattern == "long-outer":
                o["ny_outer_lower_divertor"] = draw(big)
            elif pattern == "long-inner":
                o["ny_inner_lower_divertor"] = draw(big)
            if top in ("udn", "ldn"):
                o["nx_inter_sep"] = draw(st.sampled_from([1, 2]))
            if draw(st.integers(0, 2)) == 0:
                o["start_at_upper_outer"] = True
        return {"family": "G", "eq": eq, "options": o, "entry": "api", "emphasis": pattern}

    n = 12 if tier == "quick" else 120
    return corpus.collect(
        build(), n, seed + 77, keyfn=lambda d: "%s/%s" % (d["eq"]["topology"], d["emphasis"])
    )


def run(run):
    descs = corpus.base_corpus(run.tier, run.seed) + topo_emphasis(run.tier, run.seed)
    gridcheck.run_corpus_property(run, "vf.props.c08", "check", descs)
    run.rule = RULE
    run.assumptions = [
        "BOUT++ meaning of the topology integers as modelled in vf/boutmodel.py (manual, 'BOUT++ "
        "topology'): branch cut of the lower X-point for x<ixseps1, of the upper for x<ixseps2, "
        "targets at 0, ny_inner-1|ny_inner (double null only), ny-1; ordering "
        "-1<=jyseps1_1<=jyseps2_1<=jyseps1_2<=jyseps2_2<=ny",
        "two corner points coincide when they agree within 1e-7 (the mesh's own tolerance)",
    ]


def replay(run, payload):
    gridcheck.replay_corpus_property(run, "vf.props.c08", "check", payload)
