"""C09 - radial psi grid: monotone, exact at boundaries, smooth across separatrices."""

import copy
import math
import warnings

import numpy

from .. import corpus, gridcheck, gridlab
from ..common import ShardResult
from ..unitlab import hyp_search, quiet_stdio, run_shards

LEVEL = "exploration"
RULE = (
    "unit stratum: Hypothesis parameters of getSmoothMonotonicGridFunc/make1dGrid: n in 1..200, "
    "lower/upper of either ordering over six decades, end-gradient ratio r = grad*n/(upper-lower) "
    "log-uniform in [1e-3, 8] at either or both ends, plus a constructed stratum on the branch "
    "thresholds (r = 1 +- 1e-8 +- tiny). non-trivial = at least one end gradient given; all seven "
    "analytic branches x both orderings are listed in the histogram. grid stratum: per-region "
    "psi_vals/dx/psixy_xlow of the shared gridlab corpus and nx -> 2nx derived descriptors "
    "(equilibrium construction only); connected-double-null guard: nearly connected double nulls around "
    "the documented refusal threshold (second X-point vs first gridded SOL surface, inner and outer)."
)

_EQ = None


def mini_eq():
    global _EQ
    if _EQ is None:
        from hypnotoad.core.equilibrium import Equilibrium

        class MiniEq(Equilibrium):
            def __init__(self):
                self.user_options = Equilibrium.user_options_factory.create({})
                super().__init__({})

        with quiet_stdio():
            _EQ = MiniEq()
    return _EQ


def branch_of(n, lower, upper, gl, gu):
    d = abs(upper - lower) * (1.0 + 1.0e-8)
    if gl is None and gu is None:
        return "linear"
    if gu is None:
        return "lower-cubic" if abs(gl * n) < d else "lower-erf"
    if gl is None:
        return "upper-cubic" if abs(gu * n) < d else "upper-erf"
    return "both-cos" if 0.5 * abs(gl + gu) * n < d else "both-squash"


def params(c):
    n = c["n"]
    lower, upper = c["lower"], c["upper"]
    avg = (upper - lower) / n
    gl = None if c["r_lower"] is None else c["r_lower"] * avg
    gu = None if c["r_upper"] is None else c["r_upper"] * avg
    return n, lower, upper, gl, gu


def make(n, lower, upper, gl, gu):
    eq = mini_eq()
    with numpy.errstate(all="ignore"), warnings.catch_warnings():
        warnings.simplefilter("ignore")
        return eq.getSmoothMonotonicGridFunc(n, lower, upper, grad_lower=gl, grad_upper=gu)


def onesided(f, x0, h, sgn, order):
    """second-order one-sided difference for f' (order=1) or f'' (order=2) at x0 towards sgn."""
    f0, f1, f2, f3 = f(x0), f(x0 + sgn * h), f(x0 + 2 * sgn * h), f(x0 + 3 * sgn * h)
    if order == 1:
        return sgn * (-3 * f0 + 4 * f1 - f2) / (2 * h)
    return (2 * f0 - 5 * f1 + 4 * f2 - f3) / (h * h)


def check_case(c):
    fails = []
    n, lower, upper, gl, gu = params(c)
    br = branch_of(n, lower, upper, gl, gu)
    c["_branch"] = br + ("/increasing" if upper > lower else "/decreasing")
    span = abs(upper - lower)

    rs = [r for r in (c["r_lower"], c["r_upper"]) if r is not None]
    r_eff = sum(rs) / len(rs) if rs else 0.0
    near = bool(1.0 + 0.99e-8 <= r_eff <= 1.0 + 2.0e-3)
    c["_near"] = near

    def fail(bucket, detail):
        if not any(x[0] == bucket for x in fails):
            d = dict(detail)
            d["r_eff"] = r_eff
            win = near or d.pop("_into_window", False)
            if win:
                # 1 < r <= 1.002: the root-finding brackets / sici cancellation window, see
                # known_findings.json C09-threshold-window
                bucket = bucket.replace("C09/", "C09/threshold-window/", 1)
            fails.append((bucket + "/" + br, d, {"branch": br, "just_above_branch_threshold": win}))

    try:
        f = make(n, lower, upper, gl, gu)
    except Exception as e:  # noqa: BLE001
        fail("C09/constructor-raised", {"exc": repr(e)[:300], "n": n, "lower": lower, "upper": upper, "grad_lower": gl, "grad_upper": gu})
        return fails
    with numpy.errstate(all="ignore"), warnings.catch_warnings():
        warnings.simplefilter("ignore")
        f0, fn = float(f(0.0)), float(f(float(n)))
        if not (abs(f0 - lower) <= 1e-9 * span and abs(fn - upper) <= 1e-9 * span):
            fail("C09/end-values", {"f(0)": f0, "lower": lower, "f(n)": fn, "upper": upper})
        # strictly monotone over real-valued index
        xs = numpy.linspace(0.0, float(n), 50 * n + 1) if n <= 40 else numpy.linspace(0.0, float(n), 2001)
        vals = numpy.array([float(f(x)) for x in xs])
        d = numpy.diff(vals) * numpy.sign(upper - lower)
        if not numpy.all(numpy.isfinite(vals)):
            fail("C09/non-finite", {"first_bad_index": float(xs[int(numpy.argmin(numpy.isfinite(vals)))])})
            return fails
        # between the indices the function may saturate in floating point (erf -> 1): never decreasing
        if not numpy.all(d >= -1e-13 * span):
            k = int(numpy.argmin(d))
            fail("C09/decreasing", {"i": float(xs[k]), "f(i)": float(vals[k]), "f(next)": float(vals[k + 1])})
        faces = numpy.array([float(f(float(i))) for i in range(n + 1)])
        dfc = numpy.diff(faces) * numpy.sign(upper - lower)
        faces_monotone = bool(numpy.all(dfc > 0))
        c["_saturated"] = not faces_monotone
        # end gradients and vanishing second derivative at constrained ends
        for end, g, x0, sgn in (("lower", gl, 0.0, 1.0), ("upper", gu, float(n), -1.0)):
            if g is None:
                continue
            h = 1e-3 * n
            d1a, d1b = onesided(f, x0, h, sgn, 1), onesided(f, x0, h / 2, sgn, 1)
            band = 4 * abs(d1a - d1b) + 1e-6 * abs(g) + 1e-9 * span / h
            if abs(d1b - g) > band:
                fail("C09/end-gradient-" + end, {"requested": g, "measured": float(d1b), "band": float(band)})
            d2a, d2b = onesided(f, x0, h, sgn, 2), onesided(f, x0, h / 2, sgn, 2)
            band2 = 4 * abs(d2a - d2b) + 1e-4 * (abs(g) + span / n) / n + 1e-8 * span / (h * h)
            if abs(d2b) > band2:
                fail("C09/end-second-derivative-" + end, {"measured": float(d2b), "band": float(band2)})
        # continuity in the parameters (in particular across the branch switches)
        idx = numpy.linspace(0.0, float(n), 9)
        base = numpy.array([float(f(x)) for x in idx])
        for which in ("lower", "upper", "gl", "gu"):
            p = [n, lower, upper, gl, gu]
            k = {"lower": 1, "upper": 2, "gl": 3, "gu": 4}[which]
            if p[k] is None:
                continue
            for s in (1.0, -1.0):
                q = list(p)
                # boundary values are perturbed relative to the span, gradients relative to themselves
                q[k] = p[k] + s * 1e-7 * span if k in (1, 2) else p[k] * (1.0 + s * 1e-7)
                try:
                    f2 = make(*q)
                except ValueError:
                    continue
                v2 = numpy.array([float(f2(x)) for x in idx])
                jump = float(numpy.max(numpy.abs(v2 - base)))
                if jump > 1e-4 * span:
                    avg = (q[2] - q[1]) / q[0]
                    rq = [g / avg for g in (q[3], q[4]) if g is not None]
                    rq = sum(rq) / len(rq)
                    fail(
                        "C09/discontinuous-in-parameters",
                        {"parameter": which, "relative_change": s * 1e-7, "max_jump_over_span": jump / span,
                         "branch_after": branch_of(*q), "_into_window": bool(1.0 + 0.99e-8 <= rq <= 1.002)},
                    )
        # nesting: doubling n with half the gradients keeps every original face
        if n <= 100:
            try:
                f2 = make(2 * n, lower, upper, None if gl is None else gl / 2, None if gu is None else gu / 2)
                coarse = numpy.array([float(f(float(i))) for i in range(n + 1)])
                fine = numpy.array([float(f2(float(2 * i))) for i in range(n + 1)])
                e = float(numpy.max(numpy.abs(coarse - fine)))
                if e > 1e-8 * span:
                    fail("C09/nesting", {"max_abs_diff_over_span": e / span})
            except Exception as ex:  # noqa: BLE001
                fail("C09/nesting-raised", {"exc": repr(ex)[:200]})
        # make1dGrid: faces at f(i), centres midway, monotone guard consistent
        try:
            grid = mini_eq().make1dGrid(n, f)
            if not faces_monotone:
                fail("C09/make1dGrid-accepted-non-monotone-faces", {"faces": faces.tolist()[:8]})
            if not (numpy.array_equal(grid[::2], faces) and numpy.allclose(grid[1::2], 0.5 * (faces[:-1] + faces[1:]), rtol=0, atol=1e-15 * max(abs(lower), abs(upper), 1e-300))):
                fail("C09/make1dGrid-values", {})
        except ValueError as ex:
            # centres are 0.5*(a+b): increments at rounding level may legitimately be refused
            if faces_monotone and bool(numpy.all(dfc > 8e-16 * numpy.max(numpy.abs(faces)))):
                fail("C09/make1dGrid-refused-monotone-function", {"exc": repr(ex)[:200]})
    return fails


def unit_strategy(threshold=False):
    from hypothesis import strategies as st

    @st.composite
    def build(draw):
        n = draw(st.one_of(st.integers(1, 12), st.integers(1, 200)))
        mag = 10.0 ** draw(st.integers(-3, 3))
        a = draw(st.floats(-1.0, 1.0)) * mag
        span = draw(st.floats(0.05, 1.0)) * mag * draw(st.sampled_from([1.0, 1.0, 1e-2, 1e2]))
        up = draw(st.booleans())
        lower, upper = (a, a + span) if up else (a + span, a)

        def ratio():
            if threshold:
                return draw(st.sampled_from([1.0, 1.0 + 1e-8, 1.0 - 1e-8, 1.0 + 2e-8, 1.0 + 1.0000001e-8, 1.0 + 0.9999999e-8, 1.0 - 1e-12, 1.0 + 1e-6, 1.0 - 1e-6]))
            return round(10.0 ** draw(st.floats(-3.0, math.log10(8.0))), 6)

        which = draw(st.sampled_from(["lower", "upper", "both", "both", "none"] if not threshold else ["lower", "upper", "both"]))
        rl = ratio() if which in ("lower", "both") else None
        ru = ratio() if which in ("upper", "both") else None
        if threshold and which == "both":
            # the switch is at 0.5*(rl+ru) = 1(+1e-8): keep the mean on the threshold
            t = ratio()
            rl = round(draw(st.floats(0.2, 1.8)), 3)
            ru = 2.0 * t - rl
        return {"n": n, "lower": float(lower), "upper": float(upper), "r_lower": rl, "r_upper": ru}

    return build()


def shard_unit(seed, n, threshold=False):
    res = ShardResult()
    hyp_search(
        "C09", unit_strategy(threshold), check_case, seed=seed, max_examples=n, result=res,
        nontrivial=lambda c: c["r_lower"] is not None or c["r_upper"] is not None,
        label=lambda c: ["branch/" + c.pop("_branch", "?"), "stratum/" + ("threshold" if threshold else "generic")]
        + (["just-above-branch-threshold"] if c.pop("_near", False) else [])
        + (["faces-saturate(refused-by-guard)"] if c.pop("_saturated", False) else []),
    )
    return res


# ------------------------------------------------------------------------- grid stratum ---
def check_grid(case):
    nc, side = case.nc, case.side
    desc = case.desc
    fails = []
    hist = []
    margins = {}
    T = gridcheck.refine_tolerance(case)

    def fail(bucket, detail):
        if not any(x[0] == bucket for x in fails):
            fails.append((bucket, detail, {}))

    for rid, reg in side["regions"].items():
        pv = reg["psi_vals"]
        d = numpy.diff(pv)
        if not (numpy.all(d > 0) or numpy.all(d < 0)):
            fail("C09/grid/psi_vals-not-monotone", {"region": reg["name"], "psi_vals": pv.tolist()})
        if not numpy.allclose(pv[1::2], 0.5 * (pv[:-1:2] + pv[2::2]), rtol=0, atol=1e-14 * (1 + numpy.abs(pv).max())):
            fail("C09/grid/centres-not-midway", {"region": reg["name"]})
        (xs, xe), (ys, ye) = side["region_indices"][rid]
        dx = nc["dx"][xs:xe, ys:ye]
        want = (pv[2::2] - pv[:-2:2])[:, None]
        if not numpy.array_equal(dx, numpy.broadcast_to(want, dx.shape)):
            fail("C09/grid/dx-not-face-difference", {"region": reg["name"], "max_diff": float(numpy.abs(dx - want).max())})
        px = reg["fields"]["psixy"]["xlow"]
        dd = px[1:] - px[:-1]
        e = float(numpy.abs(dd - want).max())
        margins["dx-vs-psixy_xlow"] = max(margins.get("dx-vs-psixy_xlow", 0.0), e / (2 * T))
        if e > 2 * T:
            fail("C09/grid/dx-vs-psixy_xlow", {"region": reg["name"], "max_diff": e, "tol": 2 * T})
        # adjoining segments share their boundary value
        o = side["connections"][rid].get("outer")
        if o is not None:
            pv2 = side["regions"][o]["psi_vals"]
            if abs(pv[-1] - pv2[0]) > 1e-13 * (abs(pv[-1]) + abs(pv[-1] - pv[0])):
                fail("C09/grid/segments-do-not-share-boundary", {"region": reg["name"], "a": float(pv[-1]), "b": float(pv2[0])})
            # equal half-cell widths on the two sides of the shared face (same gradient, zero
            # second derivative): |w_out - w_in| bounded by the third-derivative term
            w_in, w_out = pv[-1] - pv[-2], pv2[1] - pv2[0]
            if reg["separatrix_radial_index"] == reg["radialIndex"] + 1 or True:
                scale = max(abs(pv[-1] - pv[0]) / reg["nx"], abs(pv2[-1] - pv2[0]) / side["regions"][o]["nx"])
                ratio = abs(w_out - w_in) / (0.5 * scale)
                hist.append("sep-half-cell-mismatch/%s" % ("<1%" if ratio < 0.01 else "<10%" if ratio < 0.1 else ">=10%"))
                if numpy.sign(w_in) != numpy.sign(w_out):
                    fail("C09/grid/psi-not-monotone-across-segments", {"region": reg["name"]})
    if desc["family"] == "G":
        # requested boundary values
        o = side["eq_options"]
        psi_axis, psi_sep0 = side["psi_axis"], side["psi_sep"][0]

        def norm_to_psi(v):
            return psi_axis + v * (psi_sep0 - psi_axis)

        want_core = o.get("psi_core") if o.get("psi_core") is not None else norm_to_psi(o["psinorm_core"])
        want_sol = o.get("psi_sol") if o.get("psi_sol") is not None else norm_to_psi(o["psinorm_sol"])
        ends_in = [float(r["psi_vals"][0]) for r in side["regions"].values() if r["radialIndex"] == 0]
        ends_out = [float(r["psi_vals"][-1]) for r in side["regions"].values() if side["connections"][list(side["regions"]).index(0) if False else 0] is not None]
        scale = abs(psi_sep0 - psi_axis)
        core_like = [float(r["psi_vals"][0]) for r in side["regions"].values() if r["radialIndex"] == 0 and "core" in r["name"]]
        for v in core_like:
            if abs(v - want_core) > 1e-12 * scale:
                fail("C09/grid/core-boundary-value", {"got": v, "want": float(want_core)})
        sol_like = [
            float(r["psi_vals"][-1])
            for rid, r in side["regions"].items()
            if side["connections"][rid].get("outer") is None and ("outer" in r["name"] or r["name"].startswith("core"))
        ]
        for v in sol_like:
            if abs(v - want_sol) > 1e-12 * scale:
                fail("C09/grid/sol-boundary-value", {"got": v, "want": float(want_sol)})
        # private-flux limits: the first face of a leg's innermost segment is the requested
        # psi_pf_lower / psi_pf_upper (or psinorm_pf_*, which default to psinorm_pf)
        def pf_want(which):
            if o.get("psi_pf_" + which) is not None:
                return float(o["psi_pf_" + which])
            v = o.get("psinorm_pf_" + which)
            if v is None:
                v = o.get("psinorm_pf")
            return None if v is None else float(norm_to_psi(v))

        for rid, r in side["regions"].items():
            if r["radialIndex"] != 0 or "divertor" not in r["name"]:
                continue
            which = "upper" if "upper" in r["name"] else "lower"
            want_pf = pf_want(which)
            if want_pf is not None and abs(float(r["psi_vals"][0]) - want_pf) > 1e-12 * scale:
                fail("C09/grid/pf-boundary-value", {"region": r["name"], "got": float(r["psi_vals"][0]), "want": want_pf, "which": which})
        # every separatrix value is a face of the regions touching it
        connected = side.get("double_null_type") == "connected"
        spread = abs(side["psi_sep"][0] - side["psi_sep"][-1]) if connected else 0.0
        for ps in side["psi_sep"]:
            # a connected double null is gridded with one separatrix value for both X-points
            hit = any(numpy.any(numpy.abs(r["psi_vals"][::2] - ps) <= 1e-12 * scale + spread) for r in side["regions"].values())
            if not hit:
                fail("C09/grid/separatrix-not-a-face", {"psi_sep": ps})
    return {"fails": fails, "nontrivial": True, "hist": hist, "margins": margins}


def nesting_pairs(run):
    """nx -> 2nx on equilibrium construction only: every original face stays a face."""
    base = [d for d in corpus.base_corpus(run.tier, run.seed) if d["family"] == "G"]
    base = base[: (6 if run.tier == "quick" else 60)]
    descs = []
    for d in base:
        a = copy.deepcopy(d)
        a["stop_after"] = "equilibrium"
        b = copy.deepcopy(a)
        for k in list(b["options"]):
            if k.startswith("nx_") and isinstance(b["options"][k], int):
                b["options"][k] *= 2
        descs += [a, b]
    cases = gridlab.run_cases(descs, timeout=300)
    for i in range(0, len(cases), 2):
        a, b = cases[i], cases[i + 1]
        run.bump("nesting/outcomes=%s,%s" % (a.outcome, b.outcome))
        if a.outcome != "equilibrium" or b.outcome != "equilibrium":
            continue
        run.count(a.desc, nontrivial=True, key="nest:" + gridlab.desc_id(a.desc))
        for name, ra in a.side["eq_regions"].items():
            rb = b.side["eq_regions"].get(name)
            if rb is None:
                run.failure("C09/nesting/region-missing", {"region": name}, {"desc": a.desc}, {})
                continue
            for pa, pb in zip(ra["psi_vals"], rb["psi_vals"]):
                fa, fb = pa[::2], pb[::4]
                span = abs(pa[-1] - pa[0])
                if len(fa) != len(fb) or float(numpy.max(numpy.abs(fa - fb))) > 1e-8 * span:
                    run.failure(
                        "C09/nesting/faces-moved",
                        {"region": name, "coarse_faces": fa.tolist(), "fine_every_second_face": fb.tolist()},
                        {"desc": a.desc},
                        {},
                    )


def connected_dn_guard(run):
    """A connected double null (nx_inter_sep=0) whose X-points differ slightly in psi must be refused
    when the second X-point lies beyond the first gridded flux surface of the inner or the outer SOL
    (documented ValueError); when it is accepted, that must not be the case. Equilibrium construction
    only (cheap), parameters generated around the threshold."""
    from hypothesis import strategies as st

    @st.composite
    def build(draw):
        from .. import families

        eq = {"topology": "cdn", "sign": draw(st.sampled_from([1.0, -1.0])), "nR": 65, "nZ": 65,
              "delta": draw(st.sampled_from([2e-4, -2e-4, 5e-4, -5e-4, 1e-3, -1e-3, 2e-3]))}
        crit = families.g_critical(eq)
        po, xs = crit["o"][2], crit["x"]
        p2 = (xs[1][2] - po) / (xs[0][2] - po)  # normalised psi of the second X-point (> 1)
        nx_sol = draw(st.integers(1, 4))
        # first SOL cell centre at about 1 + width/(2 nx_sol): widths generated around the threshold
        # where that centre coincides with the second X-point, the inner SOL mostly the narrower one
        w_in = 2 * nx_sol * (p2 - 1.0) * draw(st.sampled_from([0.4, 0.7, 0.9, 1.1, 1.4, 2.0, 3.0]))
        w_out = w_in * draw(st.sampled_from([0.5, 1.0, 2.0, 4.0, 4.0]))
        o = {"nx_core": 2, "nx_sol": nx_sol, "orthogonal": True, "psinorm_core": 0.9, "psinorm_pf": 0.95,
             "psinorm_sol": round(1.0 + max(w_out, 0.004), 5), "psinorm_sol_inner": round(1.0 + max(w_in, 0.004), 5),
             "psi_spacing_separatrix_multiplier": draw(st.sampled_from([1.0, 1.0, 0.5]))}
        for k in ("ny_inner_lower_divertor", "ny_inner_upper_divertor", "ny_outer_lower_divertor", "ny_outer_upper_divertor", "ny_inner_sol", "ny_outer_sol"):
            o[k] = 4
        return {"family": "G", "entry": "api", "eq": eq, "options": o, "stop_after": "equilibrium"}

    n = 48 if run.tier == "quick" else 600
    descs = corpus.collect(build(), n, run.seed + 900, keyfn=lambda d: "%s/%s" % ("inner-narrower" if d["options"]["psinorm_sol_inner"] < d["options"]["psinorm_sol"] else "inner-wider", d["options"]["nx_sol"]), oversample=4)
    for c in gridlab.run_cases(descs, timeout=300):
        msg = str(c.status.get("exc_msg", ""))
        if c.outcome == "raised":
            kind = "refused-inner-sol" if "in the inner SOL" in msg else "refused-outer-sol" if "in the outer SOL" in msg else "raised-other:" + str(c.status.get("exc_type"))
            run.bump("connected-dn-guard/" + kind)
            run.count(c.desc, nontrivial=kind.startswith("refused"), key="cdg:" + gridlab.desc_id(c.desc))
            continue
        if c.outcome != "equilibrium":
            run.bump("connected-dn-guard/" + c.outcome)
            run.count(c.desc, nontrivial=False)
            continue
        run.bump("connected-dn-guard/accepted")
        run.count(c.desc, nontrivial=True, key="cdg:" + gridlab.desc_id(c.desc))
        ps = c.side["psi_sep"]
        if len(ps) < 2:
            continue
        out = numpy.sign(ps[0] - c.side["psi_axis"])
        for name in ("inner_core", "outer_core"):
            reg = c.side["eq_regions"].get(name)
            if reg is None or len(reg["psi_vals"]) < 2:
                continue
            first_centre = float(reg["psi_vals"][1][1])
            if out * (first_centre - ps[1]) < 0:
                run.failure(
                    "C09/connected-double-null-accepted-with-second-xpoint-beyond-first-sol-surface/" + name,
                    {"psi_sep": list(ps), "first_sol_cell_centre": first_centre, "region": name},
                    {"desc": c.desc}, {},
                )


def run(run):
    q = run.tier == "quick"
    jobs = [("shard_unit", dict(seed=run.seed * 100 + i, n=150 if q else 3000)) for i in range(10)]
    jobs += [("shard_unit", dict(seed=run.seed * 100 + 50 + i, n=100 if q else 1500, threshold=True)) for i in range(4)]
    from ..unitlab import merge_job_outputs, run_jobs

    merge_job_outputs(run, run_jobs([("vf.props.c09", fn, kw) for fn, kw in jobs], processes=14))
    gridcheck.run_corpus_property(run, "vf.props.c09", "check_grid", corpus.base_corpus(run.tier, run.seed))
    nesting_pairs(run)
    connected_dn_guard(run)
    run.rule = RULE
    run.assumptions = [
        "end values within 1e-9 |upper-lower| (documented brentq rtol 1e-10); derivatives by one-sided "
        "second-order differences with a Richardson band; parameter continuity: relative change 1e-7 moves "
        "no sample by more than 1e-4 |upper-lower|",
        "the gradient-sign ValueError is the documented refusal; any other exception from the constructor "
        "within r in [1e-3, 8] is reported",
    ]


def replay(run, payload):
    case = payload["case"]
    if "desc" in case:
        if "nesting" in payload["bucket"]:
            print("nesting replay: re-run the check (pairs are compared)")
            return
        gridcheck.replay_corpus_property(run, "vf.props.c09", "check_grid", payload)
        return
    for b, d, lab in check_case(case):
        run.failure(b, d, case, lab)
