"""C19 - critical points are found, classified, ordered and selected correctly."""

import math
import warnings

import numpy

from .. import families, refeq
from ..common import ShardResult
from ..unitlab import hyp_search, quiet_stdio, run_shards

LEVEL = "exploration"
RULE = (
    "Hypothesis-generated Gaussian-sum flux functions (doublet / single null / double null, 2..4 "
    "blobs) with continuous sub-grid shifts, rotation about the box centre, both signs, input "
    "resolutions 24..100 per side, non-square boxes; a constructed stratum places critical points "
    "exactly on nodes or midway between nodes of mirror-symmetric data. Reference: harness' own "
    "multi-start Newton on the analytic gradient/Hessian. non-trivial = at least one X-point and one "
    "O-point of the reference lie in the searched interior; distinct = distinct parameter sets. "
    "Tokamak level: double nulls with psinorm_sol generated around the secondary X-point's "
    "normalised psi; findSaddlePoint on rotated quadratic saddles with cubic perturbation."
)


def make_function(c):
    th = c["rot"]
    cr, cz = c["box"][0] + c["box"][2] / 2, c["box"][1] + c["box"][3] / 2
    blobs = []
    for r, z, wr, wz, a in c["blobs"]:
        x, y = r - cr, z - cz
        blobs.append((cr + x * math.cos(th) - y * math.sin(th), cz + x * math.sin(th) + y * math.cos(th), wr, wz, a))
    return families.GaussSum(blobs, s=c["sign"], A=c["A"])


def reference_critical(f, box, n=28):
    """All non-degenerate critical points of the analytic function inside the box."""
    R0, Z0, LR, LZ = box
    found = []
    for i in range(n):
        for j in range(n):
            p = f.newton(R0 + (i + 0.5) / n * LR, Z0 + (j + 0.5) / n * LZ, maxit=60)
            if p is None:
                continue
            r, z, det = p
            if not (R0 <= r <= R0 + LR and Z0 <= z <= Z0 + LZ):
                continue
            if any((r - q[0]) ** 2 + (z - q[1]) ** 2 < 1e-10 for q in found):
                continue
            found.append((r, z, det, float(f.psi(r, z))))
    return found


def check_case(c):
    from hypnotoad.utils import critical

    fails = []
    f = make_function(c)
    R0, Z0, LR, LZ = c["box"]
    nR, nZ = c["nR"], c["nZ"]
    R1 = numpy.linspace(R0, R0 + LR, nR)
    Z1 = numpy.linspace(Z0, Z0 + LZ, nZ)
    R2, Z2 = numpy.meshgrid(R1, Z1, indexing="ij")
    psi = f.psi(R2, Z2)
    atol = 1e-6
    with quiet_stdio(), warnings.catch_warnings():
        warnings.simplefilter("ignore")
        try:
            op, xp = critical.find_critical(R2, Z2, psi, atol, 1000)
        except Exception as e:  # noqa: BLE001
            return [("C19/find_critical-raised", {"exc": repr(e)[:300]}, {})]
    dR, dZ = R1[1] - R1[0], Z1[1] - Z1[0]
    cell = math.hypot(dR, dZ)
    refc = reference_critical(f, c["box"])
    sref = refeq.RefSpline(R1, Z1, psi)
    scale = abs(c["A"])
    hess_margin = 0.05 * (scale / 0.3**2) ** 2  # |det H| well away from zero
    interior = lambda r, z: (R0 + 4 * dR <= r <= R0 + LR - 4 * dR) and (Z0 + 4 * dZ <= z <= Z0 + LZ - 4 * dZ)  # noqa: E731
    good = []
    for r, z, det, p in refc:
        sep = min([math.hypot(r - q[0], z - q[1]) for q in refc if (q[0], q[1]) != (r, z)] + [1e9])
        if interior(r, z) and abs(det) > hess_margin and sep > 6 * cell:
            good.append((r, z, det, p))
    ref_o = [g for g in good if g[2] > 0]
    ref_x = [g for g in good if g[2] < 0]
    c["_nt"] = bool(ref_o) and bool(ref_x)

    def fail(bucket, detail):
        if not any(x[0] == bucket for x in fails):
            fails.append((bucket, detail, {}))

    # every returned point is a critical point of the spline interpolant of the data
    for kind, pts in (("O", op), ("X", xp)):
        for r, z, p in pts:
            Br = float(sref.dZ(r, z)) / r
            Bz = -float(sref.dR(r, z)) / r
            if not Br * Br + Bz * Bz < atol * 1.0000001:
                fail("C19/returned-point-not-critical", {"kind": kind, "R": r, "Z": z, "Bp2": Br * Br + Bz * Bz})
            det = float(sref.dRR(r, z)) * float(sref.dZZ(r, z)) - float(sref.dRZ(r, z)) ** 2
            # the property speaks of well-separated critical points: hypnotoad classifies with a
            # +-2 cell stencil, which a second critical point within a few cells falsifies (a shallow
            # saddle between two close O-points on a coarse array)
            others = [math.hypot(r - q[0], z - q[1]) for q in refc if math.hypot(r - q[0], z - q[1]) > 0.5 * cell]
            separated = min(others + [1e9]) > 6 * cell
            # (4 x the margin used for "good" reference points: a saddle this shallow between two merging
            # blobs is not resolved by a +-2 cell stencil on a 27-point array)
            if separated and abs(det) > 4 * hess_margin and ((det > 0) != (kind == "O")):
                fail("C19/misclassified", {"returned_as": kind, "hessian_det": det, "R": r, "Z": z})
            if abs(float(sref.psi(r, z)) - p) > 1e-10 * scale:
                fail("C19/returned-psi-wrong", {"got": p, "want": float(sref.psi(r, z))})
    # duplicates
    for kind, pts in (("O", op), ("X", xp)):
        for i in range(len(pts)):
            for j in range(i + 1, len(pts)):
                if math.hypot(pts[i][0] - pts[j][0], pts[i][1] - pts[j][1]) < 0.5 * cell:
                    fail("C19/duplicate", {"kind": kind, "a": list(pts[i]), "b": list(pts[j])})
    if not op:
        if ref_o:
            fail("C19/O-point-missed" + ("/tie-stratum" if c.get("tie") else ""), {"reference": [list(g) for g in ref_o], "returned_x": len(xp)})
        return fails
    # O-points: each good reference O-point returned exactly once
    for g in ref_o:
        m = [q for q in op if math.hypot(q[0] - g[0], q[1] - g[1]) < 0.25 * cell]
        if len(m) != 1:
            fail("C19/O-point-missed" + ("/tie-stratum" if c.get("tie") else ""), {"reference": list(g), "matches": len(m), "returned": [list(q) for q in op]})
    # primary O-point: nearest the box centre
    cr, cz = R0 + LR / 2, Z0 + LZ / 2
    d = [math.hypot(q[0] - cr, q[1] - cz) for q in op]
    if len(op) > 1 and d[0] > min(d) + 1e-9:
        fail("C19/primary-O-point-not-nearest-centre", {"distances": d})
    Ro, Zo, Po = op[0]
    # X-points: documented monotonic filter evaluated by the harness on its own spline
    for g in ref_x:
        rl = numpy.linspace(Ro, g[0], 50)
        zl = numpy.linspace(Zo, g[1], 50)
        pl = sref.psi(rl, zl)
        if g[3] < Po:
            pl = -pl
        maxp = float(numpy.max(pl))
        drop = (maxp - pl[-1]) / (maxp - pl[0]) if maxp != pl[0] else 1.0
        ind = int(numpy.argmin(pl))
        far = (rl[ind] - Ro) ** 2 + (zl[ind] - Zo) ** 2
        m = [q for q in xp if math.hypot(q[0] - g[0], q[1] - g[1]) < 0.25 * cell]
        if 0.0005 < drop < 0.002 or 0.5e-4 < far < 2e-4:
            continue  # within 2x of a filter threshold: ambiguous both ways
        expect = drop <= 0.001 and far <= 1e-4
        if expect and len(m) != 1:
            fail("C19/X-point-missed" + ("/tie-stratum" if c.get("tie") else ""), {"reference": list(g), "matches": len(m), "drop": drop})
        if not expect and len(m) != 0:
            fail("C19/X-point-not-filtered", {"reference": list(g), "drop": drop, "far": far})
    # no unmatched returned point (vs all reference points, also those near the margins)
    for kind, pts in (("O", op), ("X", xp)):
        for q in pts:
            if not any(math.hypot(q[0] - g[0], q[1] - g[1]) < 0.5 * cell for g in refc):
                # where the analytic gradient almost vanishes without a critical point (a shoulder
                # between two merging blobs) the function is nearly degenerate, which the property
                # excludes: the interpolant of a coarse array may have a saddle/extremum pair there
                gmag = math.hypot(float(f.dR(q[0], q[1])), float(f.dZ(q[0], q[1])))
                if gmag < 0.02 * scale / 0.3:
                    continue
                fail("C19/spurious-point", {"kind": kind, "point": list(q), "analytic_grad": gmag})
    # ordering of X-points by |psi - psi_axis|
    dp = [abs(q[2] - Po) for q in xp]
    if any(dp[i] > dp[i + 1] + 1e-12 * scale for i in range(len(dp) - 1)):
        fail("C19/X-point-order", {"dpsi": dp})
    return fails


def case_strategy(tie=False):
    from hypothesis import strategies as st

    fl = lambda a, b, k=4: st.floats(a, b, allow_nan=False).map(lambda x: round(x, k))  # noqa: E731

    @st.composite
    def build(draw):
        LR = draw(st.sampled_from([1.0, 1.0, 1.3]))
        LZ = draw(st.sampled_from([1.4, 1.4, 1.0, 1.8]))
        box = [1.0, -LZ / 2, LR, LZ]
        kind = draw(st.sampled_from(["sn", "dn", "doublet", "dn"]))
        r0 = 1.0 + LR / 2 + draw(fl(-0.03, 0.03))
        zc = draw(fl(-0.03, 0.03))
        w = draw(fl(0.26, 0.34))
        sep = draw(fl(0.52, 0.66))
        if kind == "sn":
            blobs = [(r0, zc, w, w, 1.0), (r0, zc - sep, w, w, draw(fl(0.8, 1.2)))]
        elif kind == "doublet":
            blobs = [(r0, zc + sep / 2, w, w, 1.0), (r0, zc - sep / 2, w, w, draw(fl(0.9, 1.1)))]
        else:
            blobs = [(r0, zc, w, w, 1.0), (r0, zc - sep - draw(fl(0.0, 0.02)), w, w, 1.0), (r0, zc + sep + draw(fl(0.0, 0.02)), w, w, 1.0)]
        return {
            "box": box,
            "blobs": [list(b) for b in blobs],
            "rot": draw(st.sampled_from([0.0, 0.0, 0.1, -0.2, 0.5])),
            "sign": draw(st.sampled_from([1.0, -1.0])),
            "A": draw(st.sampled_from([1.0, 0.3, 30.0])),
            "nR": draw(st.integers(24, 100)),
            "nZ": draw(st.integers(24, 100)),
            "kind": kind,
        }

    @st.composite
    def build_tie(draw):
        # mirror-symmetric data about Z = 0 with the O-point on the symmetry line: on a node for
        # odd nZ, midway between two nodes for even nZ; likewise in R
        nR = draw(st.integers(24, 80))
        nZ = draw(st.integers(24, 80))
        LR, LZ = 1.0, 1.4
        kind = draw(st.sampled_from(["dn", "doublet-R"]))
        w = draw(fl(0.26, 0.34))
        sep = draw(fl(0.52, 0.66))
        r0 = 1.5
        if kind == "dn":
            blobs = [(r0, 0.0, w, w, 1.0), (r0, -sep, w, w, 1.0), (r0, sep, w, w, 1.0)]
        else:
            blobs = [(r0, 0.0, w, w, 1.0), (r0 - 0.35, 0.0, 0.2, 0.2, 0.0)]
        return {"box": [1.0, -LZ / 2, LR, LZ], "blobs": [list(b) for b in blobs], "rot": 0.0,
                "sign": draw(st.sampled_from([1.0, -1.0])), "A": 1.0, "nR": nR, "nZ": nZ, "kind": kind, "tie": True}

    return build_tie() if tie else build()


def shard_find_critical(seed, n, tie=False):
    res = ShardResult()
    hyp_search(
        "C19", case_strategy(tie), check_case, seed=seed, max_examples=n, result=res,
        nontrivial=lambda c: c.pop("_nt", False),
        label=lambda c: ["%s/%s" % ("tie" if c.get("tie") else "generic", c["kind"]), "parity/nR%d,nZ%d" % (c["nR"] % 2, c["nZ"] % 2)],
        case_timeout=120.0,
    )
    return res


# ------------------------------------------------------------------- tokamak level -------
def check_tokamak(c):
    from hypnotoad.cases import tokamak

    eqd = {"topology": c["topology"], "sign": c["sign"], "delta": c["delta"], "nR": c["n"], "nZ": c["n"], "fpol": [2.0, 0.0, 0.0, 0.0]}
    inp = families.g_inputs(eqd)
    crit = inp["crit"]
    po = crit["o"][2]
    xs = crit["x"]
    psin = [(x[2] - po) / (xs[0][2] - po) for x in xs]
    p2 = psin[1] if len(psin) > 1 else None
    if p2 is None:
        return []
    psinorm_sol = c["psinorm_sol_offset"] + p2
    if abs(psinorm_sol - p2) < 1e-3 or psinorm_sol <= 1.005:
        c["_skip"] = True
        return []
    opts = {"psinorm_sol": psinorm_sol, "psinorm_core": 0.9, "psinorm_pf": 0.95, "nx_core": 1, "nx_sol": 1, "nx_inter_sep": 1,
            "ny_inner_divertor": 3, "ny_outer_divertor": 3, "ny_sol": 4}
    if c.get("edge_as") == "psi_sol":
        # the same edge given un-normalised (psi_sol overrides psinorm_sol, which is left at its default)
        del opts["psinorm_sol"]
        edge = po + psinorm_sol * (xs[0][2] - po)
        opts["psi_sol"] = edge
        opts["psi_sol_inner"] = edge
    with quiet_stdio(), warnings.catch_warnings():
        warnings.simplefilter("ignore")
        try:
            eq = tokamak.TokamakEquilibrium(
                inp["R1D"].copy(), inp["Z1D"].copy(), inp["psi2D"].copy(), inp["psi1D"].copy(), inp["fpol1D"].copy(),
                wall=list(inp["wall"]), settings=opts,
            )
        except Exception as e:  # noqa: BLE001
            c["_raised"] = type(e).__name__
            return []
    fails = []
    want_two = p2 < psinorm_sol
    c["_two"] = want_two
    if (len(eq.x_points) == 2) != want_two:
        fails.append(
            ("C19/tokamak/x-point-count", {"kept": len(eq.x_points), "p2": p2, "psinorm_sol": psinorm_sol}, {})
        )
        return fails
    nreg = len(eq.regions)
    if nreg != (6 if want_two else 3):
        fails.append(("C19/tokamak/region-count", {"regions": list(eq.regions), "two_xpoints": want_two}, {}))
    # inner legs end at smaller R than outer legs (strike points)
    ends = {}
    for name, reg in eq.regions.items():
        if "divertor" in name:
            pts = reg.points
            strike = pts[0] if reg.kind.startswith("wall") else pts[-1]
            ends[name] = strike.R
    for lu in ("lower", "upper"):
        a = [v for k, v in ends.items() if "inner" in k and (lu in k or ("lower" not in k and "upper" not in k))]
        b = [v for k, v in ends.items() if "outer" in k and (lu in k or ("lower" not in k and "upper" not in k))]
        if a and b and not max(a) < min(b):
            fails.append(("C19/tokamak/inner-outer-labels", {"strike_R": ends}, {}))
            break
    # psi_sep / x_points consistent and ordered
    d = [abs(p - eq.psi_axis) for p in eq.psi_sep]
    if any(d[i] > d[i + 1] for i in range(len(d) - 1)):
        fails.append(("C19/tokamak/psi_sep-order", {"psi_sep": list(eq.psi_sep)}, {}))
    return fails


def tokamak_strategy():
    from hypothesis import strategies as st

    return st.fixed_dictionaries(
        {
            "topology": st.sampled_from(["udn", "ldn"]),
            "sign": st.sampled_from([1.0, -1.0]),
            "delta": st.sampled_from([0.004, 0.008, 0.012, 0.02, 0.03]),
            "n": st.sampled_from([49, 65]),
            "psinorm_sol_offset": st.floats(-0.04, 0.06).map(lambda x: round(x, 4)),
            "edge_as": st.sampled_from(["psinorm_sol", "psi_sol"]),
        }
    )


def shard_tokamak(seed, n):
    res = ShardResult()

    def lab(c):
        if c.pop("_skip", False):
            return ["tokamak/skipped-margin"]
        if "_raised" in c:
            return ["tokamak/raised:" + c.pop("_raised")]
        return ["tokamak/expect-%s/edge-as-%s" % ("double" if c.pop("_two", False) else "single", c.get("edge_as", "psinorm_sol"))]

    hyp_search("C19", tokamak_strategy(), check_tokamak, seed=seed, max_examples=n, result=res, label=lab, shrink=False, case_timeout=240.0)
    return res


# ------------------------------------------------------------------- findSaddlePoint -----
def check_saddle(c):
    from hypnotoad.core.equilibrium import Equilibrium, Point2D, SolutionError

    th, a, b, cub = c["theta"], c["a"], c["b"], c["cubic"]
    x0, y0 = c["centre"]

    def psi(R, Z):
        x = (R - x0) * math.cos(th) + (Z - y0) * math.sin(th)
        y = -(R - x0) * math.sin(th) + (Z - y0) * math.cos(th)
        return a * x * x - b * y * y + cub[0] * x**3 + cub[1] * x * y * y + cub[2] * y**3

    class MiniEq(Equilibrium):
        def __init__(self):
            self.user_options = Equilibrium.user_options_factory.create({})
            super().__init__({})

    with quiet_stdio():
        eq = MiniEq()
    eq.psi = psi
    # truth: Newton on the analytic gradient (finite differences of the closed form are exact enough)
    def grad(R, Z, h=1e-6):
        return numpy.array([(psi(R + h, Z) - psi(R - h, Z)) / (2 * h), (psi(R, Z + h) - psi(R, Z - h)) / (2 * h)])

    p = numpy.array([x0, y0])
    for _ in range(30):
        g = grad(*p)
        h = 1e-4
        H = numpy.array([(grad(p[0] + h, p[1]) - grad(p[0] - h, p[1])) / (2 * h), (grad(p[0], p[1] + h) - grad(p[0], p[1] - h)) / (2 * h)])
        p = p - numpy.linalg.solve(H, g)
    s = c["half"]
    p1 = Point2D(x0 + c["off"][0] - s, y0 + c["off"][1] - s)
    p2 = Point2D(x0 + c["off"][0] - s, y0 + c["off"][1] + s)
    try:
        with quiet_stdio(), warnings.catch_warnings():
            warnings.simplefilter("ignore")
            got = eq.findSaddlePoint(p1, p2)
    except (ValueError, SolutionError) as e:
        c["_refused"] = type(e).__name__
        return []
    err = math.hypot(got.R - p[0], got.Z - p[1])
    if err > 1e-6:
        return [("C19/findSaddlePoint/wrong-position", {"got": [got.R, got.Z], "want": p.tolist(), "err": err}, {})]
    return []


def saddle_strategy():
    from hypothesis import strategies as st

    fl = lambda a, b, k=4: st.floats(a, b, allow_nan=False).map(lambda x: round(x, k))  # noqa: E731
    return st.fixed_dictionaries(
        {
            "theta": st.sampled_from([0.0, 0.05, -0.1, 0.2, math.pi / 2, math.pi / 2 + 0.1]),
            "a": fl(0.5, 3.0),
            "b": fl(0.5, 3.0),
            "cubic": st.lists(fl(-0.3, 0.3), min_size=3, max_size=3),
            "centre": st.tuples(fl(0.8, 1.2), fl(-0.2, 0.2)).map(list),
            "off": st.tuples(fl(-0.03, 0.03), fl(-0.03, 0.03)).map(list),
            "half": fl(0.06, 0.15),
        }
    )


def shard_saddle(seed, n):
    res = ShardResult()
    hyp_search("C19", saddle_strategy(), check_saddle, seed=seed, max_examples=n, result=res,
               label=lambda c: ["saddle/" + ("refused:" + c.pop("_refused") if "_refused" in c else "found")])
    return res


def run(run):
    q = run.tier == "quick"
    jobs = [("shard_find_critical", dict(seed=run.seed * 100 + i, n=40 if q else 600)) for i in range(8)]
    jobs += [("shard_find_critical", dict(seed=run.seed * 100 + 50 + i, n=25 if q else 300, tie=True)) for i in range(2)]
    jobs += [("shard_tokamak", dict(seed=run.seed * 100 + i, n=5 if q else 40)) for i in range(4)]
    jobs += [("shard_saddle", dict(seed=run.seed, n=100 if q else 2000))]
    from ..unitlab import merge_job_outputs, run_jobs

    merge_job_outputs(run, run_jobs([("vf.props.c19", fn, kw) for fn, kw in jobs], processes=15))
    run.rule = RULE
    run.assumptions = [
        "reference critical points: 28x28 multi-start Newton on the analytic function; only points with "
        "|det H| > margin, >= 4 cells from the edge and >= 6 cell diagonals apart are required",
        "X-points within a factor 2 of one of the documented filter thresholds are ambiguous and excluded",
        "findSaddlePoint may refuse (ValueError/SolutionError) saddles whose axes are not aligned with the box",
    ]


def replay(run, payload):
    case = payload["case"]
    b = payload["bucket"]
    if "tokamak" in b:
        fails = check_tokamak(case)
    elif "findSaddlePoint" in b:
        fails = check_saddle(case)
    else:
        fails = check_case(case)
    for bb, d, lab in fails:
        run.failure(bb, d, case, lab)
