"""C01 - every grid point lies on its flux surface."""

import numpy

from .. import corpus, gridcheck

LEVEL = "exploration"
RULE = (
    "shared gridlab corpus: Hypothesis-generated descriptors (Gaussian-sum tokamak family in all "
    "topologies, circular), stratified by topology x orthogonal x interpolation; each is run "
    "through hypnotoad exactly as a user would. non-trivial = a grid was written and it has an "
    "X-point region or >= 6 cells; distinct = distinct descriptor hash. Oracle: harness' own "
    "interpolant of the input psi array evaluated at every point of all seven location arrays of "
    "the file and of the complete per-region arrays (incl. the last x/y rows the file drops)."
)


def check(case):
    nc, side = case.nc, case.side
    cref = gridcheck.CaseRef(case.desc)
    ref = cref.ref
    T = gridcheck.refine_tolerance(case)
    fails = []
    margins = {}
    xpts = side.get("x_points", [])
    hist = []
    ps = list(side.get("psi_sep") or [])
    pin_tol = 1e-12 * (cref.psi_scale + 1.0) + (abs(ps[0] - ps[-1]) if ps and side.get("double_null_type") == "connected" else 0.0)

    def pinned_ok(R, Z, want):
        """Corners replaced by an X-point position whose separatrix value (hypnotoad's psi_sep of that
        X-point; with dct it comes from the critical-point finder's own spline) is the psi of this
        radial index."""
        m = numpy.zeros(numpy.shape(R), dtype=bool)
        for k, xp in enumerate(xpts):
            if xp is None or k >= len(ps):
                continue
            m |= (R == xp[0]) & (Z == xp[1]) & (numpy.abs(want - ps[k]) <= pin_tol)
        return m

    # --- file level -----------------------------------------------------------------
    for rid, reg in side["regions"].items():
        pv = reg["psi_vals"]
        (xs, xe), (ys, ye) = side["region_indices"][rid]
        nx = xe - xs
        pinned_total = 0
        for suffix, info in gridcheck.FILE_LOCS.items():
            R = nc["Rxy" + suffix][xs:xe, ys:ye]
            Z = nc["Zxy" + suffix][xs:xe, ys:ye]
            want = pv[2 * numpy.arange(nx) + info["off"]][:, None]
            got = ref.psi(R, Z)
            err = numpy.abs(got - want)
            exempt = numpy.zeros(R.shape, dtype=bool)
            if "corners" in suffix:
                # a corner replaced by the X-point position is exempt from the refinement tolerance,
                # but the X-point must be the one of *this* radial index: its psi is the separatrix
                # value there (a connected double null uses one value for both X-points)
                exempt = gridcheck.xpoint_mask(R, Z, xpts)
                pinned_total += int(exempt.sum())
                exempt = pinned_ok(R, Z, want)
            e = numpy.where(exempt, 0.0, err)
            worst = float(e.max()) if e.size else 0.0
            margins["psi-vs-radial-grid"] = max(margins.get("psi-vs-radial-grid", 0.0), worst / T)
            if worst > T:
                i, j = numpy.unravel_index(int(numpy.argmax(e)), e.shape)
                fails.append(
                    (
                        "C01/off-surface/file%s" % (suffix or "_centre"),
                        {
                            "region": reg["name"],
                            "ix": int(i),
                            "iy": int(j),
                            "R": float(R[i, j]),
                            "Z": float(Z[i, j]),
                            "psi_ref": float(got[i, j]),
                            "psi_grid": float(want[i, 0]),
                            "tol": T,
                        },
                        {},
                    )
                )
            if suffix in ("", "_xlow", "_ylow"):
                px = nc["psixy" + suffix][xs:xe, ys:ye]
                tol2 = 1e-10 * (cref.psi_scale + 1.0)
                d = float(numpy.max(numpy.abs(px - got))) if px.size else 0.0
                margins["psixy-vs-ref"] = max(margins.get("psixy-vs-ref", 0.0), d / tol2)
                if d > tol2:
                    fails.append(
                        (
                            "C01/psixy-mismatch/file%s" % (suffix or "_centre"),
                            {"region": reg["name"], "max_abs_diff": d, "tol": tol2},
                            {},
                        )
                    )
                # constancy along y inside the region
                spread = float(numpy.max(px.max(axis=1) - px.min(axis=1))) if px.size else 0.0
                if spread > 2 * T:
                    fails.append(
                        (
                            "C01/psixy-varies-along-y/file%s" % (suffix or "_centre"),
                            {"region": reg["name"], "spread": spread, "tol": 2 * T},
                            {},
                        )
                    )
        # at most the 4 region corners may be pinned, each seen from up to 4 corner arrays
        if pinned_total > 4:
            fails.append(
                ("C01/too-many-pinned-corners", {"region": reg["name"], "count": pinned_total}, {})
            )
        # --- complete per-region arrays (incl. last rows) --------------------------
        f = reg["fields"]
        for loc, off in (("centre", 1), ("xlow", 0), ("ylow", 1), ("corners", 0)):
            R = f["Rxy"][loc]
            Z = f["Zxy"][loc]
            n = R.shape[0]
            want = pv[2 * numpy.arange(n) + off][:, None]
            got = ref.psi(R, Z)
            err = numpy.abs(got - want)
            if loc == "corners":
                ex = gridcheck.xpoint_mask(R, Z, xpts)
                if int(ex.sum()) > 4:
                    fails.append(
                        ("C01/too-many-pinned-corners", {"region": reg["name"], "count": int(ex.sum())}, {})
                    )
                err = numpy.where(pinned_ok(R, Z, want), 0.0, err)
            worst = float(err.max()) if err.size else 0.0
            margins["psi-vs-radial-grid"] = max(margins.get("psi-vs-radial-grid", 0.0), worst / T)
            if worst > T:
                i, j = numpy.unravel_index(int(numpy.argmax(err)), err.shape)
                fails.append(
                    (
                        "C01/off-surface/region-%s" % loc,
                        {
                            "region": reg["name"],
                            "ix": int(i),
                            "iy": int(j),
                            "of_ny": int(R.shape[1]),
                            "psi_ref": float(got[i, j]),
                            "psi_grid": float(want[i, 0]),
                            "tol": T,
                        },
                        {},
                    )
                )
    ncell = int(nc["Rxy"].size)
    nontrivial = bool(xpts) or ncell >= 6
    hist.append("cells/%s" % ("<50" if ncell < 50 else "<200" if ncell < 200 else ">=200"))
    # one failure per bucket is enough
    seen = set()
    uniq = []
    for b, d, lab in fails:
        if b not in seen:
            seen.add(b)
            uniq.append((b, d, lab))
    return {"fails": uniq, "nontrivial": nontrivial, "margins": margins, "hist": hist}


def run(run):
    descs = corpus.base_corpus(run.tier, run.seed)
    gridcheck.run_corpus_property(run, "vf.props.c01", "check", descs)
    run.rule = RULE
    run.assumptions = [
        "reference psi is the harness' own interpolant of the same input array (spline: scipy "
        "RectBivariateSpline built by the harness; dct: own cosine-series evaluation); C18 checks "
        "hypnotoad's interpolants against these and the analytic function",
        "tolerance T = 4*refine_atol*max(1,|psi|max) (refinePointNewton accepts |f|<atol or "
        "|f|<atol*|psival|; factor 4 covers the 'integrate' fall-back)",
        "cases where hypnotoad raises or exceeds the per-case time cap are counted, not asserted",
    ]
    run.extra["bounds"] = corpus_bounds()


def corpus_bounds():
    return {
        "nx_per_segment": "1..4",
        "ny_per_region": "3..14",
        "guards": "0..3",
        "finecontour_Nfine": "40..100",
        "input_resolution": "49..97 per side",
    }


def replay(run, payload):
    gridcheck.replay_corpus_property(run, "vf.props.c01", "check", payload)
