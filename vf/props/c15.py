"""C15 - regridding is history independent."""

import copy

import numpy

from .. import corpus, gridlab
from .c13 import compare_grids

LEVEL = "exploration"
RULE = (
    "Hypothesis-generated histories of Mesh.redistributePoints calls on non-orthogonal meshes (connected "
    "and disconnected double null, single null bases): 1..4 steps, each changing a generated subset of the "
    "nonorthogonal_* settings (including returning to an earlier value and changing "
    "nonorthogonal_spacing_method), each followed by calculateRZ() as the GUI does, optionally with "
    "geometry() in between (the GUI's Write Grid), plus steps whose dictionary also changes a setting that is "
    "not nonorthogonal_*. A step hands over either the complete option dictionary (GUI) or only the "
    "nonorthogonal_* keys; 'reset' steps drop every earlier nonorthogonal_* value (back to defaults), down to "
    "redistributePoints({}). Oracle: the same base built from scratch with the final non-orthogonal settings. "
    "non-trivial = a completed history with a setting changed twice or a reset; distinct = (base, history) hash."
)

SETTINGS = {
    "nonorthogonal_xpoint_poloidal_spacing_length": [0.02, 0.05, 0.1, 0.2],
    "nonorthogonal_target_all_poloidal_spacing_length": [0.2, 0.5, 1.0],
    "nonorthogonal_xpoint_poloidal_spacing_range": [0.01, 0.03, 0.1],
    "nonorthogonal_xpoint_poloidal_spacing_range_inner": [0.02, 0.1],
    "nonorthogonal_xpoint_poloidal_spacing_range_outer": [0.02, 0.1],
    "nonorthogonal_target_all_poloidal_spacing_range": [0.03, 0.1, 0.3],
    "nonorthogonal_radial_range_power": [1.0, 2.0, 3.0],
    "nonorthogonal_spacing_method": ["combined", "poloidal_orthogonal_combined"],
}
OTHER = {"xpoint_poloidal_spacing_length": [0.03, 0.2], "target_all_poloidal_spacing_length": [0.2, 2.0], "finecontour_Nfine": [30, 90], "psinorm_sol": [1.05]}


def histories(tier, seed):
    from hypothesis import strategies as st

    @st.composite
    def build(draw):
        top = draw(st.sampled_from(["cdn", "cdn", "usn", "ldn"]))
        eq = {"topology": top, "sign": draw(st.sampled_from([1.0, -1.0])), "nR": 65, "nZ": 65, "fpol": [2.0, 0.1, 0, 0]}
        if top == "ldn":
            eq["delta"] = 0.006
        o = {"orthogonal": False, "nx_core": 2, "nx_sol": 2, "finecontour_Nfine": 60, "y_boundary_guards": draw(st.sampled_from([0, 1]))}
        if draw(st.booleans()):
            # the defaults of the nonorthogonal_* lengths derive from these two: a regrid that leaves
            # them out must fall back to the derived values, as a fresh build does
            o["xpoint_poloidal_spacing_length"] = draw(st.sampled_from([0.02, 0.1]))
            o["target_all_poloidal_spacing_length"] = draw(st.sampled_from([0.3, 0.6]))
        if top == "usn":
            o.update(ny_inner_divertor=4, ny_outer_divertor=4, ny_sol=8)
        else:
            o.update({k: 4 for k in ["ny_inner_lower_divertor", "ny_inner_upper_divertor", "ny_outer_lower_divertor", "ny_outer_upper_divertor", "ny_inner_sol", "ny_outer_sol"]})
            if top == "ldn":
                o["nx_inter_sep"] = 1
        nsteps = draw(st.integers(1, 4))
        keys = draw(st.lists(st.sampled_from(sorted(SETTINGS)), min_size=1, max_size=3, unique=True))
        hist = []
        for k in range(nsteps):
            ks = draw(st.lists(st.sampled_from(keys), min_size=1, max_size=len(keys), unique=True))
            step = {"set": {key: draw(st.sampled_from(SETTINGS[key])) for key in ks}}
            if draw(st.integers(0, 3)) == 0:
                step["geometry_before"] = True
            if draw(st.booleans()):
                step["style"] = "minimal"  # only the nonorthogonal_* keys are handed over
            if k > 0 and draw(st.integers(0, 2)) == 0:
                # return to the defaults: every earlier nonorthogonal_* value is dropped; with an empty
                # 'set' and the minimal style this is redistributePoints({})
                step["reset"] = True
                if draw(st.booleans()):
                    step["set"] = {}
            hist.append(step)
        if not hist[-1]["set"]:
            # a history ending in "back to the defaults" only says something if the state just before
            # was away from them: the step before the last changes two effective settings and is not
            # itself a reset; the spacing method stays untouched (its history dependence is a listed
            # finding and would mask anything else in the same history)
            for s_ in hist:
                s_["set"].pop("nonorthogonal_spacing_method", None)
            prev = hist[-2]
            prev.pop("reset", None)
            prev["set"]["nonorthogonal_xpoint_poloidal_spacing_length"] = draw(st.sampled_from([0.02, 0.2]))
            prev["set"]["nonorthogonal_target_all_poloidal_spacing_length"] = draw(st.sampled_from([0.2, 1.0]))
        other = draw(st.integers(0, 4)) == 0 and bool(hist[-1]["set"])
        if other:
            ok = draw(st.sampled_from(sorted(OTHER)))
            hist[-1]["set"][ok] = draw(st.sampled_from(OTHER[ok]))
            hist[-1].pop("style", None)  # only the complete dictionary can carry a non-nonorthogonal key
        return {"family": "G", "entry": "regrid-history", "eq": eq, "options": o, "history": hist, "changes_other_setting": other}

    n = 12 if tier == "quick" else 72

    def key(d):
        # the grid is compared with a fresh build after the *last* step only, so what the last step is
        # decides what a history can show: redistributePoints({}), another reset, or a plain change
        last = d["history"][-1]
        if last.get("reset") and not last["set"] and last.get("style") == "minimal":
            final = "empty-dict"
        elif last.get("reset"):
            final = "reset"
        else:
            final = "change"
        k = "final=%s/other=%s/base-lengths=%s" % (final, d["changes_other_setting"], "xpoint_poloidal_spacing_length" in d["options"])
        if final == "empty-dict":
            # hypnotoad refuses many non-orthogonal single nulls: one such history per topology, so that
            # at least one completes
            k = "final=empty-dict/%s" % d["eq"]["topology"]
        return k if tier == "quick" else "%s/%s/%d" % (k, d["eq"]["topology"], len(d["history"]))

    return corpus.collect(build(), n, seed + 1500, keyfn=key, oversample=30 if tier == "quick" else 12)


def run(run):
    hs = histories(run.tier, run.seed)
    descs = []
    for h in hs:
        fresh = copy.deepcopy(h)
        fresh["entry"] = "api"
        final = {}
        base = dict(h["options"])
        for step in h["history"]:
            if step.get("reset"):
                final = {}
                base = {k: v for k, v in base.items() if not k.startswith("nonorthogonal_")}
            final.update({k: v for k, v in step["set"].items() if k.startswith("nonorthogonal_")})
        fresh["options"] = dict(base, **final)
        fresh.pop("history")
        fresh.pop("changes_other_setting")
        descs += [h, fresh]
    cases = gridlab.run_cases(descs, timeout=600 if run.tier == "quick" else 1500)
    worst_pos = 0.0
    for i in range(0, len(cases), 2):
        a, b = cases[i], cases[i + 1]
        h = a.desc
        changed_twice = len(h["history"]) >= 2 and any(
            sum(1 for s in h["history"] if k in s["set"]) >= 2 for k in SETTINGS
        )
        has_reset = any(s_.get("reset") for s_ in h["history"])
        run.bump("history/%s/steps=%d/%s,%s" % (h["eq"]["topology"], len(h["history"]), a.outcome, b.outcome))
        for s_ in h["history"]:
            run.bump("step/%s%s%s" % (s_.get("style", "full-dict"), "/reset" if s_.get("reset") else "", "/empty-set" if not s_["set"] else ""))
        if "timeout" in (a.outcome, b.outcome):
            run.inconclusive += 1
            run.count(h, nontrivial=False)
            continue
        if h["changes_other_setting"]:
            # either refused, or the other setting is unaffected
            run.count(h, nontrivial=True, key=gridlab.desc_id(h))
            if a.outcome == "grid":
                after = a.status.get("mesh_options_after", {})
                for k, v in h["history"][-1]["set"].items():
                    if not k.startswith("nonorthogonal_") and k in after and after[k] == v and h["options"].get(k) != v:
                        run.failure("C15/other-setting-changed-by-regrid", {"setting": k, "value": v}, {"desc": h}, {})
                if b.outcome == "grid":
                    bad = positions_differ(a, b)
                    worst_pos = max(worst_pos, bad[1])
                    if bad[0]:
                        if any("nonorthogonal_spacing_method" in s_["set"] for s_ in h["history"]):
                            # the listed finding (separatrix distribution of the method in force at
                            # construction) also shows in these histories: same bucket, same label
                            run.failure("C15/positions-differ-from-fresh-build", bad[0], {"desc": h}, {"history_changes_nonorthogonal_spacing_method": True})
                        else:
                            run.failure("C15/other-setting-affected-grid", bad[0], {"desc": h}, {})
            continue
        if a.outcome == "raised":
            run.count(h, nontrivial=False)
            run.bump("history-raised/%s@%s" % (a.status.get("exc_type"), a.status.get("exc_at")))
            continue
        run.count(h, nontrivial=(changed_twice or has_reset) and b.outcome == "grid", key=gridlab.desc_id(h))
        if len(run.samples) < 4:
            run.sample({"topology": h["eq"]["topology"], "history": h["history"]})
        mv = a.status.get("region_end_movement", [])
        if any(m > 1e-9 for m in mv):
            run.failure("C15/region-end-points-moved", {"movement_per_step": mv}, {"desc": h}, {})
        if b.outcome != "grid":
            run.bump("fresh-build-refused/%s" % b.status.get("exc_type"))
            continue
        bad, w = positions_differ(a, b)
        changes_method = any("nonorthogonal_spacing_method" in s_["set"] and s_["set"]["nonorthogonal_spacing_method"] != "combined" for s_ in h["history"]) or any(
            "nonorthogonal_spacing_method" in s_["set"] for s_ in h["history"])
        lab = {"history_changes_nonorthogonal_spacing_method": bool(changes_method)}
        if not changes_method:
            worst_pos = max(worst_pos, w)
        if bad:
            run.failure("C15/positions-differ-from-fresh-build", bad, {"desc": h}, lab)
        else:
            gb = geometry_differs(a, b)
            if gb:
                run.failure("C15/geometry-differs-from-fresh-build", gb, {"desc": h}, {})
    run.extra.setdefault("max_error_over_tolerance", {})["position-vs-fresh-build(method unchanged)"] = worst_pos
    run.rule = RULE
    run.assumptions = [
        "each redistributePoints call is followed by calculateRZ() (as gui.py regrid does); geometry() without "
        "calculateRZ() after a regrid is not generated because no caller in the repository does that",
        "position tolerance 1e-6 + 20 (L/Nfine)^2: the regridded mesh interpolates on FineContours built for the "
        "original point distribution",
        "a history that raises is a refusal (counted)",
    ]


def positions_differ(a, b):
    nf = float(a.side["mesh_options"].get("finecontour_Nfine", 100))
    worst = 0.0
    detail = None
    for rid, ra in a.side["regions"].items():
        rb = b.side["regions"][rid]
        length = float(numpy.sum(ra["fields"]["hy"]["centre"][0]) * a.nc["dy"][0, 0])
        tol = 1e-6 + 20.0 * (length / nf) ** 2
        for loc in ("centre", "xlow", "ylow", "corners"):
            d = numpy.hypot(ra["fields"]["Rxy"][loc] - rb["fields"]["Rxy"][loc], ra["fields"]["Zxy"][loc] - rb["fields"]["Zxy"][loc])
            r = float(d.max()) / tol
            if r > worst:
                worst = r
                if r > 1.0:
                    i, j = numpy.unravel_index(int(numpy.argmax(d)), d.shape)
                    detail = {"region": ra["name"], "location": loc, "ix": int(i), "iy": int(j), "distance": float(d.max()), "tol": tol}
    return detail, worst


def geometry_differs(a, b):
    for name in ("hy", "g22", "g_12", "J", "zShift", "curl_bOverB_y"):
        va, vb = a.nc[name], b.nc[name]
        sc = numpy.abs(vb).max() + 1e-300
        e = float(numpy.abs(va - vb).max() / sc)
        if e > 2e-2:
            return {"variable": name, "max_rel_diff": e}
    return None


def replay(run, payload):
    print("replay: re-run the check (history and fresh build are compared); descriptor in the replay file")
