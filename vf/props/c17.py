"""C17 - geqdsk write/read round trip, fixed-width (abutting) parsing, read_geqdsk mapping.

Strata
  roundtrip  Hypothesis data dictionaries -> hypnotoad write -> hypnotoad read
  abutting   same dictionaries rendered by the harness' own strict-Fortran reference writer
             (sign styles, E/e, 5e16.9 without separators, other chunkings) -> hypnotoad read
  mapping    harness-written files -> read_geqdsk(make_regions=False): R/Z axes, psi(R_i,Z_j),
             profile grid, wall, stored text
  atheris    (thorough) coverage-guided bytes -> FuzzedDataProvider -> dictionary -> same oracle
"""

import io
import math
import os
import sys
from decimal import Decimal

import numpy

from ..common import ShardResult, VERIF
from ..unitlab import hyp_search, quiet_stdio, HarnessError, _shard_entry

LEVEL = "exploration"

RULE = (
    "Hypothesis-generated geqdsk data dictionaries: nx, ny in 1..40 with a quota of sizes not "
    "divisible by 5, plus a stratum with nx or ny in {999,1000,1025}; values sign*m*10^e with "
    "e in -99..99, zeros, -0.0, integer-valued floats and Python ints; optional ffprime/pprime; "
    "0..60 boundary and limiter points; label None/short/11/15 chars; shot/time int or str. "
    "non-trivial = nx*ny > 1 and at least one negative and one |exponent| >= 10 value; distinct "
    "= distinct dictionaries (hash of the JSON form). Each dictionary is checked through "
    "hypnotoad's writer and through the harness' reference writer (abutting stratum)."
)

SCALARS = [
    "rdim",
    "zdim",
    "rcentr",
    "rleft",
    "zmid",
    "rmagx",
    "zmagx",
    "simagx",
    "sibdry",
    "bcentr",
    "cpasma",
]


# ---------------------------------------------------------------------------- oracle --
def ten_digit_ok(a, b):
    """b equals a to the ten significant digits of the format (exact decimal arithmetic)."""
    a = float(a)
    b = float(b)
    if a == 0.0:
        return b == 0.0
    da = Decimal(a)
    e = da.copy_abs().log10().to_integral_value(rounding="ROUND_FLOOR")
    half_unit = Decimal(5) * Decimal(10) ** (int(e) - 10)
    # one ulp of slack for the decimal->binary conversion of the reader
    ulp = Decimal(math.ulp(a))
    return abs(Decimal(b) - da) <= half_unit + ulp


def compare(data, got, what):
    """Compare what `read` returned with the input dictionary. Returns failure list."""
    fails = []

    def bad(bucket, detail):
        fails.append(("C17/%s/%s" % (what, bucket), detail, {}))

    nx, ny = data["nx"], data["ny"]
    if got.get("nx") != nx or got.get("ny") != ny:
        bad("size", {"nx": got.get("nx"), "ny": got.get("ny"), "want": [nx, ny]})
        return fails
    for k in SCALARS:
        if k not in got or not ten_digit_ok(data[k], got[k]):
            bad("scalar", {"field": k, "want": float(data[k]), "got": got.get(k)})
            break
    for k in ["fpol", "pres", "qpsi", "ffprime", "pprime"]:
        want = data.get(k)
        if want is None:
            want = [0.0] * nx
        g = got.get(k)
        if g is None or len(g) != nx:
            bad("profile-shape", {"field": k})
            break
        for i in range(nx):
            if not ten_digit_ok(want[i], g[i]):
                bad("profile", {"field": k, "i": i, "want": float(want[i]), "got": float(g[i])})
                break
    g = got.get("psi")
    if g is None or tuple(numpy.shape(g)) != (nx, ny):
        bad("psi-shape", {"shape": None if g is None else list(numpy.shape(g))})
    else:
        done = False
        for i in range(nx):
            for j in range(ny):
                if not ten_digit_ok(data["psi"][i][j], g[i, j]):
                    bad(
                        "psi-value-or-order",
                        {"i": i, "j": j, "want": float(data["psi"][i][j]), "got": float(g[i, j])},
                    )
                    done = True
                    break
            if done:
                break
    for rk, zk in (("rbdry", "zbdry"), ("rlim", "zlim")):
        want_r = data.get(rk) or []
        want_z = data.get(zk) or []
        if len(want_r) == 0:
            if rk in got and len(got[rk]) != 0:
                bad("points-spurious", {"field": rk})
            continue
        gr, gz = got.get(rk), got.get(zk)
        if gr is None or gz is None or len(gr) != len(want_r):
            bad("points-count", {"field": rk, "want": len(want_r)})
            continue
        for i in range(len(want_r)):
            if not (ten_digit_ok(want_r[i], gr[i]) and ten_digit_ok(want_z[i], gz[i])):
                bad("points", {"field": rk, "i": i})
                break
    return fails


# ------------------------------------------------------------------- reference writer --
def ref_e16_9(x, plus, echar):
    """Fortran e16.9 rendering of x with 1 digit before the point (1pe16.9), width 16."""
    x = float(x)
    neg = math.copysign(1.0, x) < 0
    if x == 0.0:
        digits, exp = "0000000000", 0
    else:
        d = Decimal(abs(x))
        exp = int(d.log10().to_integral_value(rounding="ROUND_FLOOR"))
        q = (d / (Decimal(10) ** exp)).quantize(Decimal("1.000000000"), rounding="ROUND_HALF_EVEN")
        if q >= 10:
            exp += 1
            q = (d / (Decimal(10) ** exp)).quantize(
                Decimal("1.000000000"), rounding="ROUND_HALF_EVEN"
            )
        digits = str(q).replace(".", "")
    s = digits[0] + "." + digits[1:10] + echar + ("-" if exp < 0 else "+") + "%02d" % abs(exp)
    s = ("-" if neg else ("+" if plus else " ")) + s
    assert len(s) == 16, s
    return s


def ref_write(data, style):
    """Strict-format reference writer. style: dict(plus, echar, chunk, sep)."""
    plus, echar, chunk, sep = style["plus"], style["echar"], style["chunk"], style["sep"]
    nx, ny = data["nx"], data["ny"]
    out = []
    # (6a8,3i4): 48 characters of text, then idum, nx, ny in i4 fields
    text = (style.get("text") or "REFWRITER 01/01/2000    #000001    0ms").ljust(48)[:48]
    out.append(text + "%4d%4d%4d\n" % (3, nx, ny))

    def block(vals):
        line = []
        lines = []
        for v in vals:
            line.append(ref_e16_9(v, plus, echar))
            if len(line) == chunk:
                lines.append(sep.join(line))
                line = []
        if line:
            lines.append(sep.join(line))
        return "".join(li + "\n" for li in lines)

    d = data
    out.append(block([d["rdim"], d["zdim"], d["rcentr"], d["rleft"], d["zmid"]]))
    out.append(block([d["rmagx"], d["zmagx"], d["simagx"], d["sibdry"], d["bcentr"]]))
    out.append(block([d["cpasma"], d["simagx"], 0.0, d["rmagx"], 0.0]))
    out.append(block([d["zmagx"], 0.0, d["sibdry"], 0.0, 0.0]))
    out.append(block(d["fpol"]))
    out.append(block(d["pres"]))
    out.append(block(d.get("ffprime") or [0.0] * nx))
    out.append(block(d.get("pprime") or [0.0] * nx))
    out.append(block([d["psi"][i][j] for j in range(ny) for i in range(nx)]))
    out.append(block(d["qpsi"]))
    nb = len(d.get("rbdry") or [])
    nl = len(d.get("rlim") or [])
    out.append("%5d%5d\n" % (nb, nl))
    if nb:
        out.append(block([v for r, z in zip(d["rbdry"], d["zbdry"]) for v in (r, z)]))
    if nl:
        out.append(block([v for r, z in zip(d["rlim"], d["zlim"]) for v in (r, z)]))
    return "".join(out)


# ------------------------------------------------------------------------- strategies --
def value_strategy():
    from hypothesis import strategies as st

    def mk(sign, m, e):
        if e == 99:
            m = min(m, 9.8)
        return sign * m * 10.0**e

    general = st.builds(
        mk,
        st.sampled_from([1.0, -1.0]),
        st.floats(min_value=1.0, max_value=9.999999, allow_nan=False),
        st.integers(-99, 99),
    )
    moderate = st.floats(
        min_value=-1e3, max_value=1e3, allow_nan=False, allow_infinity=False
    ).map(lambda x: round(x, 7))
    special = st.sampled_from([0.0, -0.0, 1.0, -1.0, 10.0, -100.0, 0.1, 9.9999999995, 1e-99, 9.5e99])
    ints_as_float = st.integers(-1000, 1000).map(float)
    rounding_edge = st.builds(
        lambda k, e, s: s * (k + 0.5) * 1e-9 * 10.0**e,
        st.integers(10**9, 10**10 - 1),
        st.integers(-50, 50),
        st.sampled_from([1.0, -1.0]),
    )
    return st.one_of(general, moderate, special, ints_as_float, rounding_edge)


def data_strategy(big=False):
    """Compact cases: a pool of generated values plus index patterns; `expand` builds the
    dictionary. Keeps Hypothesis' entropy budget small so that structure is explored rather
    than truncated to minimal examples."""
    from hypothesis import strategies as st

    val = value_strategy()
    scal = st.one_of(val, st.integers(-50, 50))

    @st.composite
    def build(draw):
        if big:
            nx, ny = draw(
                st.sampled_from(
                    [(999, 1), (1000, 1), (1025, 2), (1, 1000), (2, 1025), (1000, 2), (1000, 1001)]
                )
            )
        else:
            dim = st.one_of(st.integers(1, 12), st.integers(1, 40), st.sampled_from([1, 5, 10, 33]))
            nx, ny = draw(dim), draw(dim)
        c = {"nx": nx, "ny": ny}
        c["pool"] = draw(st.lists(val, min_size=3, max_size=14))
        c["pat"] = [draw(st.integers(1, 13)), draw(st.integers(1, 13)), draw(st.integers(0, 13))]
        c["scalars"] = {k: draw(scal) for k in SCALARS}
        c["ffprime"] = draw(st.booleans())
        c["pprime"] = draw(st.booleans())
        c["nb"] = draw(st.sampled_from([None, 0, 1, 2, 3, 5, 7, 12, 60]))
        c["nl"] = draw(st.sampled_from([None, 0, 1, 3, 4, 5, 11, 12, 57]))
        c["hdr"] = {
            "label": draw(
                st.sampled_from([None, "", "X", "FREEGS", "ELEVENCHARS", "FIFTEEN_CHARS_X", "a b"])
            ),
            "shot": draw(st.sampled_from([None, 0, 7, 123456, "#0042", "# 31000"])),
            "time": draw(st.sampled_from([None, 0, 5, 3300, "  120ms", "t=1.5s", "17"])),
        }
        c["style"] = {
            "plus": draw(st.booleans()),
            "echar": draw(st.sampled_from(["E", "e"])),
            "chunk": draw(st.sampled_from([5, 5, 1, 3, 4, 7])),
            "sep": draw(st.sampled_from(["", "", " "])),
            "text": draw(
                st.sampled_from(
                    [None, "EFITD    00/00/2008    #013333  3300ms", "x", "  3  65  65 cocos"]
                )
            ),
        }
        return c

    return build()


def expand(c):
    """compact case -> (data dictionary, hdr, style)"""
    if "data" in c:
        return c["data"], c["hdr"], c["style"]
    nx, ny = c["nx"], c["ny"]
    pool = c["pool"]
    n = len(pool)
    a, b, k = c["pat"]

    def at(i):
        return pool[i % n]

    d = {"nx": nx, "ny": ny}
    d.update(c["scalars"])
    d["fpol"] = [at(a * i + k) for i in range(nx)]
    d["pres"] = [at(b * i + k + 1) for i in range(nx)]
    d["qpsi"] = [at(a * i + b + k) for i in range(nx)]
    if c["ffprime"]:
        d["ffprime"] = [at(i + 2 * k) for i in range(nx)]
    if c["pprime"]:
        d["pprime"] = [at(2 * i + k) for i in range(nx)]
    d["psi"] = [[at(a * i + b * j * 3 + k) for j in range(ny)] for i in range(nx)]
    if c["nb"] is not None:
        d["rbdry"] = [at(a * i) for i in range(c["nb"])]
        d["zbdry"] = [at(b * i + 1) for i in range(c["nb"])]
    if c["nl"] is not None:
        d["rlim"] = [at(a * i + 2) for i in range(c["nl"])]
        d["zlim"] = [at(b * i + 3) for i in range(c["nl"])]
    return d, c["hdr"], c["style"]


def to_arrays(d):
    out = dict(d)
    for k in ["fpol", "pres", "qpsi", "ffprime", "pprime", "rbdry", "zbdry", "rlim", "zlim"]:
        if k in out:
            out[k] = numpy.array(out[k], dtype=float)
    out["psi"] = numpy.array(out["psi"], dtype=float).reshape(d["nx"], d["ny"])
    return out


def nontrivial(case):
    d, _, _ = expand(case)
    if d["nx"] * d["ny"] <= 1:
        return False
    vals = [float(v) for row in d["psi"] for v in row] + [float(d[k]) for k in SCALARS]
    vals += [float(v) for v in d["fpol"]]
    neg = any(v < 0 for v in vals)
    bigexp = any(v != 0 and (abs(v) >= 1e10 or abs(v) < 1e-9) for v in vals)
    return neg and bigexp


def labels(case):
    d, _, _ = expand(case)
    out = []
    out.append("nx%%5=%d" % (d["nx"] % 5))
    if d["nx"] != d["ny"]:
        out.append("nx!=ny")
    if d["nx"] == 1 or d["ny"] == 1:
        out.append("size-1-dimension")
    if d["nx"] >= 999 or d["ny"] >= 999:
        out.append("size>=999")
    out.append("optional:" + ("ffprime" if "ffprime" in d else "-") + ("pprime" if "pprime" in d else "-"))
    out.append("nbdry>0" if d.get("rbdry") else "nbdry=0")
    out.append("nlim>0" if d.get("rlim") else "nlim=0")
    st = case["style"]
    out.append("label=%r" % (case["hdr"]["label"],))
    out.append("abut:sep=%r,chunk=%d,plus=%s,%s" % (st["sep"], st["chunk"], st["plus"], st["echar"]))
    return out


def check_case(case):
    from hypnotoad.geqdsk import _geqdsk

    fails = []
    d, hdr, style = expand(case)
    arr = to_arrays(d)
    # --- hypnotoad writer -> hypnotoad reader
    buf = io.StringIO()
    try:
        with quiet_stdio():
            _geqdsk.write(arr, buf, label=hdr["label"], shot=hdr["shot"], time=hdr["time"])
    except Exception as e:  # noqa: BLE001
        return [("C17/roundtrip/write-raised", {"exc": repr(e)}, {})]
    text = buf.getvalue()
    try:
        with quiet_stdio():
            got = _geqdsk.read(io.StringIO(text))
    except BaseException as e:  # noqa: BLE001
        if isinstance(e, (KeyboardInterrupt, SystemExit)):
            raise
        big = d["nx"] >= 1000 or d["ny"] >= 1000
        fails.append(
            (
                "C17/roundtrip/read-raised" + ("/size>=1000" if big else ""),
                {"exc": repr(e), "header": text.splitlines()[0]},
                {"nx>=1000": big},
            )
        )
        got = None
    if got is not None:
        fails += compare(d, got, "roundtrip")
    # --- reference (abutting) writer -> hypnotoad reader
    rtext = ref_write(d, style)
    try:
        with quiet_stdio():
            got2 = _geqdsk.read(io.StringIO(rtext))
    except BaseException as e:  # noqa: BLE001
        if isinstance(e, (KeyboardInterrupt, SystemExit)):
            raise
        fails.append(
            ("C17/abutting/read-raised", {"exc": repr(e), "header": rtext.splitlines()[0]}, {})
        )
        got2 = None
    if got2 is not None:
        fails += compare(d, got2, "abutting")
    return fails


def shard_roundtrip(seed, n, big=False):
    res = ShardResult()
    hyp_search(
        "C17",
        data_strategy(big=big),
        check_case,
        seed=seed,
        max_examples=n,
        result=res,
        nontrivial=nontrivial,
        label=labels,
        sample_limit=1,
    )
    return res


def compact(case):
    d, _, _ = expand(case)
    c = {
        "nx": d["nx"],
        "ny": d["ny"],
        "scalars": {k: d[k] for k in SCALARS},
        "fpol[:3]": d["fpol"][:3],
        "psi[0][:3]": d["psi"][0][:3],
        "nbdry": len(d.get("rbdry") or []),
        "nlim": len(d.get("rlim") or []),
        "hdr": case["hdr"],
        "style": case["style"],
    }
    return c


# ------------------------------------------------------------------ read_geqdsk mapping --
def mapping_strategy():
    from hypothesis import strategies as st

    def fl(a, b):
        return st.floats(a, b, allow_nan=False).map(lambda x: round(x, 6))

    @st.composite
    def build(draw):
        nx = draw(st.integers(6, 34))
        ny = draw(st.integers(6, 34))
        return {
            "nx": nx,
            "ny": ny,
            "rleft": draw(fl(0.1, 3.0)),
            "rdim": draw(fl(0.2, 3.0)),
            "zmid": draw(fl(-1.0, 1.0)),
            "zdim": draw(fl(0.2, 4.0)),
            # psi = a R + b Z + c R Z + d (R-r0)^2 + e sin Z: no critical point needed
            # the linear part dominates (|a| >= 3 > |c Z| + |2 d (R-r0)|) so that the array
            # has no critical point and the gfile psi_axis/psi_bdry cross-check cannot fire
            "coef": [
                draw(st.sampled_from([-1.0, 1.0])) * draw(fl(3.0, 5.0)),
                draw(fl(-2.0, 2.0)),
                draw(fl(-0.2, 0.2)),
                draw(fl(-0.2, 0.2)),
                draw(fl(-0.2, 0.2)),
            ],
            "simagx": draw(fl(-2.0, 2.0)),
            "dpsi": draw(st.sampled_from([-1.0, 1.0])) * draw(fl(0.05, 3.0)),
            "fcoef": draw(st.lists(fl(-3.0, 3.0), min_size=3, max_size=3)),
            "method": draw(st.sampled_from(["spline", "dct"])),
            "clockwise": draw(st.booleans()),
            "nlim": draw(st.sampled_from([0, 3, 4, 7, 12])),
            "via": draw(st.sampled_from(["hypnotoad-writer", "reference-writer"])),
            "entry": draw(st.sampled_from(["tokamak", "tokamak", "torpex"])),
        }

    return build()


def mapping_data(c):
    nx, ny = c["nx"], c["ny"]
    R = [c["rleft"] + i * c["rdim"] / (nx - 1) for i in range(nx)]
    Z = [c["zmid"] - c["zdim"] / 2 + j * c["zdim"] / (ny - 1) for j in range(ny)]
    a, b, cc, dd, ee = c["coef"]
    r0 = c["rleft"] + 0.3 * c["rdim"]

    def psi(r, z):
        return a * r + b * z + cc * r * z + dd * (r - r0) ** 2 + ee * math.sin(z)

    d = {"nx": nx, "ny": ny}
    d.update(
        rdim=c["rdim"],
        zdim=c["zdim"],
        rcentr=1.0,
        rleft=c["rleft"],
        zmid=c["zmid"],
        rmagx=1.0,
        zmagx=0.0,
        simagx=c["simagx"],
        sibdry=c["simagx"] + c["dpsi"],
        bcentr=1.0,
        cpasma=1.0e5,
    )
    x = [k / (nx - 1) for k in range(nx)]
    f0, f1, f2 = c["fcoef"]
    d["fpol"] = [f0 + f1 * t + f2 * t * t for t in x]
    d["pres"] = [1.0e3 * (1.0 + f2 * t - 0.3 * f1 * t**3) for t in x]
    d["qpsi"] = [1.0 + t for t in x]
    d["psi"] = [[psi(R[i], Z[j]) for j in range(ny)] for i in range(nx)]
    if c["entry"] == "torpex":
        # self-consistent axis data: the axis is the node (nx-2, 1)
        i0, j0 = nx - 2, 1
        ax = c["simagx"] if abs(c["simagx"]) >= 0.1 else 0.5
        off = ax - d["psi"][i0][j0]
        d["psi"] = [[v + off for v in row] for row in d["psi"]]
        d["rmagx"], d["zmagx"] = R[i0], Z[j0]
        d["simagx"] = ax
        d["sibdry"] = ax + c["dpsi"]
        d["cpasma"] = 1.0e5 if c["dpsi"] > 0 else -1.0e5
    # keep every value representable with a two-digit exponent
    for k in ("fpol", "pres", "qpsi"):
        d[k] = [round(v, 9) for v in d[k]]
    d["psi"] = [[round(v, 9) for v in row] for row in d["psi"]]
    if c["entry"] == "torpex":
        d["simagx"] = d["psi"][nx - 2][1]
        d["sibdry"] = d["simagx"] + c["dpsi"]
    n = c["nlim"]
    if n:
        cr = c["rleft"] + c["rdim"] / 2
        cz = c["zmid"]
        ang = [2 * math.pi * k / n for k in range(n)]
        if c["clockwise"]:
            ang = ang[::-1]
        d["rlim"] = [cr + 0.4 * c["rdim"] * math.cos(t) for t in ang]
        d["zlim"] = [cz + 0.4 * c["zdim"] * math.sin(t) for t in ang]
    return d, R, Z


def check_mapping(c):
    from hypnotoad.geqdsk import _geqdsk
    from hypnotoad.cases import tokamak

    fails = []
    d, R, Z = mapping_data(c)
    if c["via"] == "hypnotoad-writer":
        buf = io.StringIO()
        with quiet_stdio():
            _geqdsk.write(to_arrays(d), buf)
        text = buf.getvalue()
    else:
        text = ref_write(d, {"plus": False, "echar": "E", "chunk": 5, "sep": ""})
    # values as a conforming reader must see them: ten significant digits
    def r10(v):
        return float("%.9e" % float(v)) if float(v) != 0 else 0.0

    import warnings

    fh = io.StringIO(text)
    fh.name = "harness.geqdsk"
    if c["entry"] == "torpex":
        return check_mapping_torpex(c, d, R, Z, text, r10)
    with quiet_stdio(), warnings.catch_warnings():
        warnings.simplefilter("ignore")
        eq = tokamak.read_geqdsk(
            fh, settings={"psi_interpolation_method": c["method"]}, make_regions=False
        )
    if isinstance(eq, tuple):
        if "is different from psi" in str(eq[1]):
            c["_refused"] = True  # documented refusal (gfile scalars vs critical points)
            return []
        return [("C17/mapping/read_geqdsk-raised", {"exc": repr(eq[1])}, {})]
    if getattr(eq, "geqdsk_input", None) != text:
        fails.append(("C17/mapping/stored-text-differs", {}, {}))
    scale = 1.0 + max(abs(v) for row in d["psi"] for v in row)
    tol = 1e-9 * scale
    worst = 0.0
    for i in range(c["nx"]):
        for j in range(c["ny"]):
            Ri = r10(c["rleft"]) + i * r10(c["rdim"]) / (c["nx"] - 1)
            Zj = r10(c["zmid"]) - 0.5 * r10(c["zdim"]) + j * r10(c["zdim"]) / (c["ny"] - 1)
            v = float(eq.psi(Ri, Zj))
            err = abs(v - r10(d["psi"][i][j]))
            worst = max(worst, err)
            if not err <= tol:
                fails.append(
                    (
                        "C17/mapping/psi-at-node/" + c["method"],
                        {"i": i, "j": j, "got": v, "want": d["psi"][i][j], "tol": tol},
                        {},
                    )
                )
                break
        if fails:
            break
    # axes
    if not (
        abs(eq.Rmin - r10(c["rleft"])) <= 1e-12
        and abs(eq.Rmax - (r10(c["rleft"]) + r10(c["rdim"]))) <= 1e-12 * (1 + abs(eq.Rmax))
        and abs(eq.Zmin - (r10(c["zmid"]) - 0.5 * r10(c["zdim"]))) <= 1e-12 * (1 + abs(eq.Zmin))
        and abs(eq.Zmax - (r10(c["zmid"]) + 0.5 * r10(c["zdim"]))) <= 1e-12 * (1 + abs(eq.Zmax))
    ):
        fails.append(("C17/mapping/axes", {"Rmin": eq.Rmin, "Rmax": eq.Rmax, "Zmin": eq.Zmin, "Zmax": eq.Zmax}, {}))
    # profile grid: linspace(simagx, sibdry, nx)
    s0, s1 = r10(d["simagx"]), r10(d["sibdry"])
    fs = 1.0 + max(abs(v) for v in d["fpol"])
    ps = 1.0 + max(abs(v) for v in d["pres"])
    for k in range(c["nx"]):
        pk = s0 + k * (s1 - s0) / (c["nx"] - 1)
        if not abs(float(eq.fpol(pk)) - r10(d["fpol"][k])) <= 1e-9 * fs:
            fails.append(("C17/mapping/fpol-on-profile-grid", {"k": k, "got": float(eq.fpol(pk)), "want": d["fpol"][k]}, {}))
            break
        if not abs(float(eq.pressure(pk)) - r10(d["pres"][k])) <= 1e-9 * ps:
            fails.append(("C17/mapping/pressure-on-profile-grid", {"k": k}, {}))
            break
    # wall
    if c["nlim"]:
        want = list(zip([r10(v) for v in d["rlim"]], [r10(v) for v in d["zlim"]]))
        if c["clockwise"]:
            want = want[::-1]
        got = [(p.R, p.Z) for p in eq.wall]
        if len(got) != len(want) or any(
            abs(g[0] - w[0]) > 1e-12 or abs(g[1] - w[1]) > 1e-12 for g, w in zip(got, want)
        ):
            fails.append(("C17/mapping/wall", {"got": got[:4], "want": want[:4]}, {}))
    return fails


def check_mapping_torpex(c, d, R, Z, text, r10):
    """TORPEX gfile branch: TORPEXMagneticField built from the same kind of file. The file
    is self-consistent (simagx is psi at the (rmagx, zmagx) node, sign of cpasma follows
    sibdry-simagx), so none of the documented sign-flip heuristics applies."""
    import tempfile
    import warnings

    from hypnotoad.cases import torpex

    fails = []
    with tempfile.TemporaryDirectory(prefix="vf_c17_") as td:
        path = os.path.join(td, "t.geqdsk")
        with open(path, "w") as f:
            f.write(text)
        from hypnotoad.core.equilibrium import SolutionError

        class _NoSaddle(torpex.TORPEXMagneticField):
            # the generated psi has no X-point; take the documented "failed to find X-point"
            # path (warning, construction continues) instead of searching for one
            def findSaddlePoint(self, *a, **k):
                raise SolutionError("harness: no saddle in generated psi")

        with quiet_stdio(), warnings.catch_warnings():
            warnings.simplefilter("ignore")
            try:
                eq = _NoSaddle(
                    {"gfile": path},
                    {"psi_interpolation_method": c["method"], "psi_core": 0.0, "psi_sol": 1.0},
                )
            except Exception as e:  # noqa: BLE001
                import traceback

                tb = traceback.extract_tb(e.__traceback__)[-1]
                return [
                    (
                        "C17/mapping/torpex-raised/%s" % type(e).__name__,
                        {"exc": repr(e), "at": "%s:%s" % (os.path.basename(tb.filename), tb.lineno)},
                        {},
                    )
                ]
    scale = 1.0 + max(abs(v) for row in d["psi"] for v in row)
    for i in range(c["nx"]):
        for j in range(c["ny"]):
            Ri = r10(c["rleft"]) + i * r10(c["rdim"]) / (c["nx"] - 1)
            Zj = r10(c["zmid"]) - 0.5 * r10(c["zdim"]) + j * r10(c["zdim"]) / (c["ny"] - 1)
            v = float(eq.psi(Ri, Zj))
            if not abs(v - r10(d["psi"][i][j])) <= 1e-9 * scale:
                return [
                    (
                        "C17/mapping/torpex-psi-at-node",
                        {"i": i, "j": j, "got": v, "want": d["psi"][i][j]},
                        {},
                    )
                ]
    if not (
        abs(eq.Rmin - r10(c["rleft"])) <= 1e-12
        and abs(eq.Zmax - (r10(c["zmid"]) + 0.5 * r10(c["zdim"]))) <= 1e-12 * (1 + abs(eq.Zmax))
    ):
        fails.append(("C17/mapping/torpex-axes", {"Rmin": eq.Rmin, "Zmax": eq.Zmax}, {}))
    return fails


def shard_mapping(seed, n):
    res = ShardResult()
    hyp_search(
        "C17",
        mapping_strategy(),
        check_mapping,
        seed=seed,
        max_examples=n,
        result=res,
        nontrivial=lambda c: not c.get("_refused"),
        label=lambda c: [
            "mapping/refused" if c.pop("_refused", False)
            else "mapping/%s/%s/%s" % (c["entry"], c["method"], c["via"])
        ],
        sample_limit=1,
    )
    return res


# ------------------------------------------------------------------------------- run --
def run(run):
    import multiprocessing

    tier, seed = run.tier, run.seed
    jobs = []
    nsh = 16
    n = 400 if tier == "quick" else 6000
    for i in range(nsh):
        jobs.append(("shard_roundtrip", dict(seed=seed * 1000 + i, n=n)))
    jobs.append(("shard_roundtrip", dict(seed=seed, n=6 if tier == "quick" else 40, big=True)))
    for i in range(8 if tier == "quick" else 16):
        jobs.append(("shard_mapping", dict(seed=seed * 1000 + i, n=40 if tier == "quick" else 500)))
    if tier == "thorough":
        jobs.append(("shard_atheris", dict(seed=seed, runs=200000, corpus="empty")))
        jobs.append(("shard_atheris", dict(seed=seed, runs=200000, corpus="seeded")))
    ctx = multiprocessing.get_context("fork")
    with ctx.Pool(16, maxtasksperchild=1) as pool:
        outs = pool.map(_shard_entry, [("vf.props.c17", fn, kw) for fn, kw in jobs], chunksize=1)
    for status, payload in outs:
        if status != "ok":
            raise HarnessError(payload)
        run.merge_shard(payload)
    run.rule = RULE
    run.extra["bounds"] = {
        "nx,ny": "1..40 and {999,1000,1025}",
        "exponents": "-99..99",
        "points": "0..60",
        "mapping_sizes": "6..34",
    }
    run.assumptions = [
        "values have two-digit decimal exponents after rounding to ten digits (|x| < 9.9e99)",
        "the abutting reference writer follows (6a8,3i4)/(5e16.9)/(2i5) and variants with "
        "'+' signs, lower-case e, other chunkings; it is harness code, not hypnotoad's writer",
        "mapping stratum uses smooth psi without requiring critical points (make_regions=False); "
        "values compared after rounding the inputs to the ten digits of the file",
    ]


def replay(run, payload):
    case = payload["case"]
    if "mapping" in payload["bucket"]:
        fails = check_mapping(case)
    elif "__bytes__" in case:
        fails = fuzz_check(bytes.fromhex(case["__bytes__"]))
    else:
        fails = check_case(case)
    for b, d, lab in fails:
        run.failure(b, d, case, lab)


# --------------------------------------------------------------------------- atheris --
def fuzz_decode(data):
    """bytes -> case dictionary through atheris.FuzzedDataProvider (structured decoding)."""
    import atheris

    fdp = atheris.FuzzedDataProvider(data)

    def val():
        kind = fdp.ConsumeIntInRange(0, 5)
        if kind == 0:
            return 0.0
        if kind == 1:
            return -0.0
        if kind == 2:
            return float(fdp.ConsumeIntInRange(-1000, 1000))
        m = 1.0 + fdp.ConsumeProbability() * 8.999
        e = fdp.ConsumeIntInRange(-99, 99)
        if e == 99:
            m = min(m, 9.8)
        s = -1.0 if fdp.ConsumeBool() else 1.0
        return s * m * 10.0**e

    nx = fdp.ConsumeIntInRange(1, 12)
    ny = fdp.ConsumeIntInRange(1, 12)
    d = {"nx": nx, "ny": ny}
    for k in SCALARS:
        d[k] = val()
    for k in ["fpol", "pres", "qpsi"]:
        d[k] = [val() for _ in range(nx)]
    if fdp.ConsumeBool():
        d["ffprime"] = [val() for _ in range(nx)]
    if fdp.ConsumeBool():
        d["pprime"] = [val() for _ in range(nx)]
    d["psi"] = [[val() for _ in range(ny)] for _ in range(nx)]
    nb = fdp.ConsumeIntInRange(0, 7)
    nl = fdp.ConsumeIntInRange(0, 7)
    if nb:
        d["rbdry"] = [val() for _ in range(nb)]
        d["zbdry"] = [val() for _ in range(nb)]
    if nl:
        d["rlim"] = [val() for _ in range(nl)]
        d["zlim"] = [val() for _ in range(nl)]
    labels_ = [None, "", "X", "ELEVENCHARS", "FIFTEEN_CHARS_X"]
    hdr = {
        "label": labels_[fdp.ConsumeIntInRange(0, 4)],
        "shot": [None, 0, 123456, "#0042"][fdp.ConsumeIntInRange(0, 3)],
        "time": [None, 0, 3300, "  120ms"][fdp.ConsumeIntInRange(0, 3)],
    }
    style = {
        "plus": fdp.ConsumeBool(),
        "echar": "e" if fdp.ConsumeBool() else "E",
        "chunk": [5, 1, 3, 7][fdp.ConsumeIntInRange(0, 3)],
        "sep": "" if fdp.ConsumeBool() else " ",
        "text": None,
    }
    return {"data": d, "hdr": hdr, "style": style}


def fuzz_check(data):
    case = fuzz_decode(data)
    return check_case(case)


def shard_atheris(seed, runs, corpus):
    """Runs the atheris campaign in a subprocess (libFuzzer owns the process)."""
    import json
    import shutil
    import subprocess
    import tempfile

    res = ShardResult()
    work = tempfile.mkdtemp(prefix="vf_c17_fuzz_")
    try:
        cdir = os.path.join(work, "corpus")
        os.makedirs(cdir)
        if corpus == "seeded":
            for i, b in enumerate([b"\x03\x04" + bytes(range(200)), b"\x0b\x07" * 150, bytes(300)]):
                with open(os.path.join(cdir, "seed%d" % i), "wb") as f:
                    f.write(b)
        out = os.path.join(work, "out.json")
        env = dict(os.environ)
        env["VF_FUZZ_OUT"] = out
        cmd = [
            sys.executable,
            os.path.join(VERIF, "vf", "fuzz_geqdsk.py"),
            cdir,
            "-runs=%d" % runs,
            "-seed=%d" % (seed if seed != 0 else 1),
            "-max_len=4096",
            "-len_control=0",
            "-artifact_prefix=%s/" % work,
            "-print_final_stats=1",
        ]
        p = subprocess.run(cmd, env=env, cwd=work, capture_output=True, text=True, timeout=3600)
        if os.path.exists(out):
            with open(out) as f:
                info = json.load(f)
        else:
            raise HarnessError("atheris target wrote no summary: rc=%s\n%s" % (p.returncode, p.stderr[-2000:]))
        res.evaluations = info["executions"]
        res.nontrivial = set(info["nontrivial_hashes"])
        res.bump("atheris/%s/executions" % corpus, info["executions"])
        res.bump("atheris/%s/corpus_units" % corpus, len(os.listdir(cdir)))
        for b, d, hexbytes in info["failures"]:
            res.failures.append((b, d, {"__bytes__": hexbytes}, {}))
        for s in info["samples"][:1]:
            res.samples.append(s)
    finally:
        shutil.rmtree(work, ignore_errors=True)
    return res
