"""C18 - psi interpolation reproduces the data; derived fields are its derivatives."""

import math
import warnings

import numpy

from .. import refeq
from ..common import ShardResult
from ..unitlab import hyp_search, quiet_stdio, run_shards

LEVEL = "exploration"
RULE = (
    "Hypothesis-generated smooth arrays (1..4 Gaussians + bilinear/quadratic polynomial + one sinusoid) "
    "on uniform grids 8..64 x 8..64 of arbitrary aspect and offset, both interpolation methods, 6 "
    "interior evaluation points per case, linear fpol(psi). non-trivial = the array is not a "
    "polynomial of degree <= 1 (at least one Gaussian or sinusoid with amplitude > 1e-3); distinct = "
    "distinct generated parameter sets."
)


def analytic(c):
    gs = c["gauss"]
    pol = c["poly"]
    sn = c["sin"]

    def f(R, Z):
        R = numpy.asarray(R, dtype=float)
        Z = numpy.asarray(Z, dtype=float)
        v = pol[0] + pol[1] * R + pol[2] * Z + pol[3] * R * Z + pol[4] * R * R + pol[5] * Z * Z
        for a, r0, z0, wr, wz in gs:
            v = v + a * numpy.exp(-(((R - r0) / wr) ** 2) - ((Z - z0) / wz) ** 2)
        v = v + sn[0] * numpy.sin(sn[1] * R + sn[2] * Z + sn[3])
        return v

    return f


def build(c):
    from hypnotoad.core.equilibrium import Equilibrium

    R = numpy.linspace(c["R0"], c["R0"] + c["LR"], c["nR"])
    Z = numpy.linspace(c["Z0"], c["Z0"] + c["LZ"], c["nZ"])
    Rg, Zg = numpy.meshgrid(R, Z, indexing="ij")
    f = analytic(c)
    psi = f(Rg, Zg)

    class MiniEq(Equilibrium):
        def __init__(self):
            self.user_options = Equilibrium.user_options_factory.create({})
            super().__init__({})

    with quiet_stdio(), warnings.catch_warnings():
        warnings.simplefilter("ignore")
        eq = MiniEq()
        eq.magneticFunctionsFromGrid(R, Z, psi.copy(), c["method"])
    f0, f1 = c["fpol"]
    eq.fpol = lambda p: f0 + f1 * p
    eq.fpolprime = lambda p: f1 + 0.0 * p
    return eq, R, Z, psi, f


def fd(F, R, Z, h, axis):
    if axis == 0:
        return (F(R + h, Z) - F(R - h, Z)) / (2 * h)
    return (F(R, Z + h) - F(R, Z - h)) / (2 * h)


def check_case(c):
    fails = []
    eq, R, Z, psi, f = build(c)
    m = c["method"]

    def fail(bucket, detail):
        if not any(x[0] == bucket for x in fails):
            fails.append((bucket + "/" + m, detail, {"method": m}))

    scale = float(numpy.max(numpy.abs(psi))) + 1e-30
    Rg, Zg = numpy.meshgrid(R, Z, indexing="ij")
    # (1) node reproduction and differential against the harness' own evaluation
    got = numpy.asarray(eq.psi(Rg, Zg))
    e = float(numpy.max(numpy.abs(got - psi)))
    if e > 1e-10 * scale:
        fail("C18/node-reproduction", {"max_abs_err": e, "scale": scale})
    ref = refeq.make_ref(R, Z, psi, m)
    dR_, dZ_ = R[1] - R[0], Z[1] - Z[0]
    pts = []
    for u, v in c["points"]:
        # cell chosen by (u, v); position inside the cell in [0.25, 0.75] so that no spline knot
        # (= data node, where third derivatives jump) lies inside a finite-difference stencil
        fi = 2 + u * (len(R) - 5)
        fj = 2 + v * (len(Z) - 5)
        i, j = int(fi), int(fj)
        pr = R[i] + (0.25 + 0.5 * (fi - i)) * dR_
        pz = Z[j] + (0.25 + 0.5 * (fj - j)) * dZ_
        pts.append((pr, pz))
    PR = numpy.array([p[0] for p in pts])
    PZ = numpy.array([p[1] for p in pts])
    gsc = scale / min(c["LR"], c["LZ"])
    for name, mine, theirs, s in (
        ("psi", ref.psi(PR, PZ), eq.psi(PR, PZ), scale),
        ("dpsidR", ref.dR(PR, PZ), -eq.Bp_Z(PR, PZ) * PR, gsc),
        ("dpsidZ", ref.dZ(PR, PZ), eq.Bp_R(PR, PZ) * PR, gsc),
        ("d2psidR2", ref.dRR(PR, PZ), eq.d2psidR2(PR, PZ), gsc / dR_),
        ("d2psidZ2", ref.dZZ(PR, PZ), eq.d2psidZ2(PR, PZ), gsc / dZ_),
        ("d2psidRdZ", ref.dRZ(PR, PZ), eq.d2psidRdZ(PR, PZ), gsc / min(dR_, dZ_)),
    ):
        err = float(numpy.max(numpy.abs(numpy.asarray(mine) - numpy.asarray(theirs))))
        if err > 1e-8 * s:
            fail("C18/differential-vs-reference/" + name, {"max_abs_err": err, "scale": s})
    # f_R, f_Z = grad psi/|grad psi|^2
    gR, gZ = ref.dR(PR, PZ), ref.dZ(PR, PZ)
    g2 = gR**2 + gZ**2
    ok = g2 > (1e-3 * gsc) ** 2
    if ok.any():
        for name, want, gotv in (("f_R", gR / g2, eq.f_R(PR, PZ)), ("f_Z", gZ / g2, eq.f_Z(PR, PZ))):
            err = numpy.abs(numpy.asarray(gotv) - want)[ok] / (1.0 / numpy.sqrt(g2[ok]))
            if float(err.max()) > 1e-7:
                fail("C18/" + name, {"max_rel_err": float(err.max())})
    # (2) mutual consistency by Richardson-controlled finite differences of the exposed functions
    L = min(c["LR"], c["LZ"])
    h = min(2e-3 * L, 0.1 * min(dR_, dZ_))
    pairs = [
        ("dBRdR", eq.dBRdR, eq.Bp_R, 0),
        ("dBRdZ", eq.dBRdZ, eq.Bp_R, 1),
        ("dBZdR", eq.dBZdR, eq.Bp_Z, 0),
        ("dBZdZ", eq.dBZdZ, eq.Bp_Z, 1),
        ("dBzetadR", eq.dBzetadR, eq.Bzeta, 0),
        ("dBzetadZ", eq.dBzetadZ, eq.Bzeta, 1),
        ("dB2dR", eq.dB2dR, eq.B2, 0),
        ("dB2dZ", eq.dB2dZ, eq.B2, 1),
        ("dBdR", eq.dBdR, lambda r, z: numpy.sqrt(eq.B2(r, z)), 0),
        ("dBdZ", eq.dBdZ, lambda r, z: numpy.sqrt(eq.B2(r, z)), 1),
        ("d2psidR2", eq.d2psidR2, lambda r, z: -eq.Bp_Z(r, z) * r, 0),
        ("d2psidZ2", eq.d2psidZ2, lambda r, z: eq.Bp_R(r, z) * r, 1),
        ("d2psidRdZ", eq.d2psidRdZ, lambda r, z: -eq.Bp_Z(r, z) * r, 1),
        ("R*Bp_R=dpsi/dZ", lambda r, z: eq.Bp_R(r, z) * r, eq.psi, 1),
        ("-R*Bp_Z=dpsi/dR", lambda r, z: -eq.Bp_Z(r, z) * r, eq.psi, 0),
    ]
    # round-off of evaluating the functions themselves (eps x scale of the quantity)
    dmin = min(dR_, dZ_)
    u_B = scale / (float(R[0]) * dmin) + abs(c["fpol"][0]) / float(R[0]) + abs(c["fpol"][1]) * scale / float(R[0])
    units = {"dB2dR": u_B * u_B, "dB2dZ": u_B * u_B, "R*Bp_R=dpsi/dZ": scale, "-R*Bp_Z=dpsi/dR": scale,
             "d2psidR2": scale / dmin, "d2psidZ2": scale / dmin, "d2psidRdZ": scale / dmin}
    for name, claimed, F, axis in pairs:
        D = numpy.asarray(claimed(PR, PZ), dtype=float)
        F1 = numpy.asarray(fd(F, PR, PZ, h, axis), dtype=float)
        F2 = numpy.asarray(fd(F, PR, PZ, h / 2, axis), dtype=float)
        Fs = numpy.abs(numpy.asarray(F(PR, PZ), dtype=float))
        floor = 1e-6 * (numpy.abs(D) + Fs / L) + 1e-9 * Fs / h + 1e-13 * units.get(name, u_B) / h
        band = 4.0 * numpy.abs(F1 - F2) + floor
        bad = numpy.abs(D - F2) > band
        if bad.any():
            k = int(numpy.argmax(numpy.abs(D - F2) / band))
            fail(
                "C18/derivative-consistency/" + name,
                {"point": [float(PR[k]), float(PZ[k])], "claimed": float(D[k]), "fd_h/2": float(F2[k]), "fd_h": float(F1[k]), "band": float(band[k])},
            )
    # div B = 0
    div = eq.Bp_R(PR, PZ) / PR + eq.dBRdR(PR, PZ) + eq.dBZdZ(PR, PZ)
    bsc = float(numpy.max(numpy.abs(eq.Bp_R(PR, PZ)) + numpy.abs(eq.Bp_Z(PR, PZ)))) / L + 1e-300
    if float(numpy.max(numpy.abs(div))) > 1e-9 * bsc * max(c["nR"], c["nZ"]):
        fail("C18/divB", {"max_abs": float(numpy.max(numpy.abs(div))), "scale": bsc})
    # (4) scalar / ndarray / MultiLocationArray arguments
    from hypnotoad.core.multilocationarray import MultiLocationArray

    for name, fn in (("psi", eq.psi), ("Bp_R", eq.Bp_R), ("Bp_Z", eq.Bp_Z), ("f_R", eq.f_R), ("d2psidR2", eq.d2psidR2)):
        arr = numpy.asarray(fn(PR, PZ), dtype=float)
        sc = numpy.array([float(numpy.asarray(fn(float(a), float(b)))) for a, b in zip(PR, PZ)])
        if not numpy.allclose(arr, sc, rtol=1e-12, atol=1e-13 * scale, equal_nan=True):
            fail("C18/scalar-vs-array/" + name, {"array": arr.tolist(), "scalar": sc.tolist()})
        Rm = MultiLocationArray(2, 3)
        Zm = MultiLocationArray(2, 3)
        Rm.centre = PR.reshape(2, 3)
        Zm.centre = PZ.reshape(2, 3)
        Rm.xlow = numpy.resize(PR, (3, 3))
        Zm.xlow = numpy.resize(PZ, (3, 3))
        try:
            out = fn(Rm, Zm)
            cen = numpy.asarray(out.centre)
            xl = numpy.asarray(out.xlow)
        except Exception as e:  # noqa: BLE001
            fail("C18/multilocationarray-raised/" + name, {"exc": repr(e)[:200]})
            continue
        if not numpy.allclose(cen, arr.reshape(2, 3), rtol=1e-12, atol=1e-13 * scale, equal_nan=True):
            fail("C18/multilocationarray-vs-array/" + name, {"centre": cen.tolist(), "array": arr.tolist()})
        want_xl = numpy.resize(arr, (3, 3))
        if not numpy.allclose(xl, want_xl, rtol=1e-12, atol=1e-13 * scale, equal_nan=True):
            fail("C18/multilocationarray-vs-array/" + name + "-xlow", {})
    return fails


def check_convergence(c):
    """(3) compactly supported Gaussians: both methods vs the analytic function."""
    fails = []
    errs = {}
    for m in ("spline", "dct"):
        errs[m] = []
        for n in (c["n"], 2 * c["n"] - 1):
            cc = dict(c["base"])
            cc.update(nR=n, nZ=n, method=m)
            eq, R, Z, psi, f = build(cc)
            # max-norm over a dense sample of the central half of the box (a handful of points
            # would measure their position relative to the nodes, not the resolution)
            off = cc["points"][0]
            gr = numpy.linspace(0.25, 0.75, 37) + 0.003 * off[0]
            PR, PZ = numpy.meshgrid(R[0] + gr * cc["LR"], Z[0] + (gr + 0.003 * off[1]) * cc["LZ"], indexing="ij")
            PR, PZ = PR.ravel(), PZ.ravel()
            err = float(numpy.max(numpy.abs(numpy.asarray(eq.psi(PR, PZ)) - f(PR, PZ))))
            errs[m].append(err)
        h = max(c["base"]["LR"], c["base"]["LZ"]) / (c["n"] - 1)
        a = max(abs(g[0]) for g in c["base"]["gauss"])
        w = min(min(g[3], g[4]) for g in c["base"]["gauss"])
        d4 = a * 12.0 / w**4 * len(c["base"]["gauss"])
        bound = 10.0 * 5.0 / 384.0 * h**4 * d4 * 2 + 1e-12 * a
        if m == "spline" and errs[m][0] > bound:
            fails.append(("C18/interpolation-error/spline", {"err": errs[m][0], "bound": bound, "h": h}, {}))
        if errs[m][0] > 1e-9 * a and not errs[m][1] <= errs[m][0] / 3.0:
            fails.append(
                ("C18/convergence/" + m, {"err_n": errs[m][0], "err_2n": errs[m][1], "n": c["n"]}, {})
            )
    c["_errs"] = errs
    return fails


def case_strategy():
    from hypothesis import strategies as st

    fl = lambda a, b, k=4: st.floats(a, b, allow_nan=False).map(lambda x: round(x, k))  # noqa: E731

    @st.composite
    def build_(draw):
        LR = draw(fl(0.2, 5.0))
        LZ = draw(fl(0.2, 5.0))
        R0 = draw(fl(0.2, 5.0))
        Z0 = draw(fl(-3.0, 3.0))
        ng = draw(st.integers(0, 4))
        gauss = []
        for _ in range(ng):
            gauss.append(
                [
                    draw(st.sampled_from([1.0, -1.0])) * draw(fl(0.1, 3.0)),
                    R0 + draw(fl(0.1, 0.9)) * LR,
                    Z0 + draw(fl(0.1, 0.9)) * LZ,
                    draw(fl(0.25, 1.0)) * LR,
                    draw(fl(0.25, 1.0)) * LZ,
                ]
            )
        poly = [draw(fl(-1.0, 1.0)) for _ in range(6)]
        poly[3] *= 0.3
        poly[4] *= 0.3 / max(1.0, (R0 + LR))
        poly[5] *= 0.3
        sn = [draw(st.sampled_from([0.0, 0.0, 0.3, 1.0])), draw(fl(-2.0, 2.0)) / LR, draw(fl(-2.0, 2.0)) / LZ, draw(fl(0.0, 6.0))]
        return {
            "R0": R0,
            "Z0": Z0,
            "LR": LR,
            "LZ": LZ,
            "nR": draw(st.integers(8, 64)),
            "nZ": draw(st.integers(8, 64)),
            "gauss": gauss,
            "poly": poly,
            "sin": sn,
            "method": draw(st.sampled_from(["spline", "dct"])),
            "fpol": [draw(fl(0.5, 3.0)) * draw(st.sampled_from([1.0, -1.0])), draw(fl(-0.5, 0.5))],
            "points": [[draw(fl(0.0, 1.0)), draw(fl(0.0, 1.0))] for _ in range(6)],
        }

    return build_()


def conv_strategy():
    from hypothesis import strategies as st

    fl = lambda a, b, k=4: st.floats(a, b, allow_nan=False).map(lambda x: round(x, k))  # noqa: E731

    @st.composite
    def build_(draw):
        ng = draw(st.integers(1, 3))
        # Gaussians that are negligible at the box edge, so the DCT's even extension is smooth
        gauss = [
            [draw(fl(0.3, 2.0)), 1.5 + draw(fl(-0.08, 0.08)), draw(fl(-0.08, 0.08)), draw(fl(0.07, 0.1)), draw(fl(0.07, 0.1))]
            for _ in range(ng)
        ]
        base = {
            "R0": 1.0,
            "Z0": -0.5,
            "LR": 1.0,
            "LZ": 1.0,
            "gauss": gauss,
            "poly": [0.0] * 6,
            "sin": [0.0, 0.0, 0.0, 0.0],
            "fpol": [1.0, 0.0],
            "points": [[draw(fl(0.0, 1.0)), draw(fl(0.0, 1.0))] for _ in range(6)],
        }
        return {"base": base, "n": draw(st.sampled_from([33, 41, 49, 57]))}

    return build_()


def nontrivial(c):
    return bool(c["gauss"]) or abs(c["sin"][0]) > 1e-3


def shard_main(seed, n):
    res = ShardResult()
    hyp_search(
        "C18", case_strategy(), check_case, seed=seed, max_examples=n, result=res, nontrivial=nontrivial,
        label=lambda c: ["method/" + c["method"], "aspect/%s" % ("wide" if c["nR"] > 2 * c["nZ"] else "tall" if c["nZ"] > 2 * c["nR"] else "square-ish")],
    )
    return res


def shard_conv(seed, n):
    res = ShardResult()
    hyp_search("C18", conv_strategy(), check_convergence, seed=seed, max_examples=n, result=res,
               nontrivial=lambda c: True, label=lambda c: ["convergence/n=%d" % c["n"]])
    for s in res.samples:
        s.pop("_errs", None)
    return res


def run(run):
    n = 250 if run.tier == "quick" else 2500
    jobs = [dict(seed=run.seed * 100 + i, n=n) for i in range(12)]
    for r in run_shards("vf.props.c18", "shard_main", jobs):
        run.merge_shard(r)
    for r in run_shards("vf.props.c18", "shard_conv", [dict(seed=run.seed * 100 + i, n=6 if run.tier == "quick" else 60) for i in range(4)]):
        run.merge_shard(r)
    run.rule = RULE
    run.assumptions = [
        "derivative consistency: claimed derivative accepted iff |claimed - FD_{h/2}| <= 4|FD_h - FD_{h/2}| + floor, "
        "h = 2e-3 x box size (Richardson-controlled; floor 1e-6 relative + round-off)",
        "evaluation points at least two cells inside the box (f_R/f_Z clip to the box)",
        "reference evaluation of the spline/DCT interpolant is the harness' own (vf/refeq.py)",
    ]
    run.extra["bounds"] = {"grid": "8..64 x 8..64", "points_per_case": 6}


def replay(run, payload):
    case = payload["case"]
    fails = check_convergence(case) if "base" in case else check_case(case)
    for b, d, lab in fails:
        run.failure(b, d, case, lab)
