"""C12 - a valid grid or an explicit error; shipped reference inputs generate."""

import copy

import numpy

from .. import boutmodel as bm
from .. import corpus, exactgeom as xg, gridcheck, gridlab

LEVEL = "exploration"
RULE = (
    "adversarial stratum: Hypothesis descriptors from the envelope strategy widened to and beyond its "
    "limits (psinorm ranges past the wall / second X-point, ny 1..2, nx 1, guards up to 6, spacing lengths "
    "over six decades, 17x17..33x33 input psi, invalid or unknown options through the command-line entry "
    "points, equilibrium/mesh option mismatch); an exception of any type is a pass, a written grid is "
    "validated completely. shipped stratum, enumerated: examples/tokamak (6 geometries), "
    "examples/torpex-xpoint/*.yaml, the integrated-test yml files and the two root-level geqdsk_*.yaml "
    "through the hypnotoad-geqdsk entry point with harness-written geqdsk files. non-trivial = a grid was "
    "written and validated, or a refusal was required and observed; distinct = descriptor hash."
)

FIELD2D = [
    "Rxy", "Zxy", "psixy", "dx", "dy", "poloidal_distance", "Brxy", "Bzxy", "Bpxy", "Btxy", "Bxy", "hy", "dphidy",
    "ShiftTorsion", "zShift", "g11", "g22", "g33", "g12", "g13", "g23", "J", "g_11", "g_22", "g_33", "g_12", "g_13",
    "g_23", "bxcvx", "bxcvy", "bxcvz", "y-coord", "theta", "chi",
]
CORNERS = ["_corners", "_lower_right_corners", "_upper_right_corners", "_upper_left_corners"]
SCALARS = ["nx", "ny", "y_boundary_guards", "ixseps1", "ixseps2", "jyseps1_1", "jyseps2_1", "ny_inner", "jyseps1_2", "jyseps2_2", "Bt_axis", "curvature_type"]
STRINGS = ["hypnotoad_inputs", "hypnotoad_inputs_yaml", "Python_version", "module_versions"]


def validate(case):
    """Complete validation of a written grid file (file only)."""
    nc = case.nc
    fails = []

    def fail(bucket, detail, labels=None):
        if not any(x[0] == bucket for x in fails):
            fails.append((bucket, detail, labels or {}))

    missing = [k for k in SCALARS + STRINGS + ["penalty_mask", "ShiftAngle", "total_poloidal_distance"] if k not in nc]
    for v in FIELD2D:
        for sfx in ("", "_xlow", "_ylow"):
            if v + sfx not in nc:
                missing.append(v + sfx)
    for v in ("Rxy", "Zxy"):
        for sfx in CORNERS:
            if v + sfx not in nc:
                missing.append(v + sfx)
    if str(nc.get("curvature_type", "")).startswith("curl(b/B)"):
        for c in "xyz":
            for sfx in ("", "_xlow", "_ylow"):
                if "curl_bOverB_" + c + sfx not in nc:
                    missing.append("curl_bOverB_" + c + sfx)
    if missing:
        fail("C12/missing-variables", {"missing": missing[:20]})
        return fails
    t = bm.topology_from_file(nc)
    nx = t["nx"]
    shape = nc["Rxy"].shape
    if shape[0] != nx:
        fail("C12/shape", {"Rxy": list(shape), "nx": nx})
    names = [k for k in nc if isinstance(nc[k], numpy.ndarray) and nc[k].ndim == 2]
    for k in names:
        if nc[k].shape != shape:
            fail("C12/shape", {"variable": k, "shape": list(nc[k].shape), "expected": list(shape)})
    for k in ("ShiftAngle", "total_poloidal_distance"):
        if numpy.asarray(nc[k]).shape != (nx,):
            fail("C12/shape", {"variable": k, "shape": list(numpy.asarray(nc[k]).shape)})
    double = t["jyseps2_1"] != t["jyseps1_2"]
    expected_ny_file = t["ny"] + (4 if double else 2) * t["myg"]
    core_only = t["jyseps1_1"] < 0 and t["ixseps1"] >= nx
    if core_only:
        expected_ny_file = t["ny"]
    if shape[1] != expected_ny_file:
        fail("C12/shape", {"ny_file": shape[1], "expected": expected_ny_file, "topology": t})
        return fails
    # closed / open classification per cell for the documented NaNs
    closed = numpy.zeros(shape, dtype=bool)
    if not bm.ordering_problems(t):
        for yf in range(shape[1]):
            y = bm.bout_y(t, yf)
            for x in range(nx):
                closed[x, yf] = y is not None and bm.is_core_cell(t, x, y)
    has_bt = bool(numpy.any(nc["Btxy"] != 0.0))
    for k in names:
        a = nc[k]
        if k.startswith("chi"):
            if has_bt:
                bad = closed & ~numpy.isfinite(a)
                if bad.any():
                    x, y = numpy.argwhere(bad)[0]
                    fail("C12/non-finite/chi-on-closed-surface", {"variable": k, "x": int(x), "yfile": int(y)})
            continue
        if not numpy.all(numpy.isfinite(a)):
            x, y = numpy.argwhere(~numpy.isfinite(a))[0]
            fail(
                "C12/non-finite/%s" % k,
                {"variable": k, "x": int(x), "yfile": int(y), "value": float(a[x, y]), "count": int((~numpy.isfinite(a)).sum())},
                {"variable": k},
            )
    for k in ("ShiftAngle", "total_poloidal_distance"):
        a = numpy.asarray(nc[k])
        for x in range(nx):
            want_finite = bool(closed[x].any())
            if want_finite and not numpy.isfinite(a[x]):
                fail("C12/non-finite/%s-on-closed-surface" % k, {"x": x})
                break
    for k in ("hy", "hy_xlow", "hy_ylow", "dy", "dy_xlow", "dy_ylow"):
        if not numpy.all(nc[k] > 0):
            fail("C12/not-positive/%s" % k, {"min": float(numpy.nanmin(nc[k]))})
    J = nc["J"]
    if not (numpy.all(J > 0) or numpy.all(J < 0)):
        fail("C12/J-changes-sign", {"n_pos": int((J > 0).sum()), "n_neg": int((J < 0).sum())})
    # no cell folded over: the four corners form a simple quadrilateral, all of one orientation
    c0 = numpy.stack([nc["Rxy_corners"], nc["Zxy_corners"]], -1)
    c1 = numpy.stack([nc["Rxy_lower_right_corners"], nc["Zxy_lower_right_corners"]], -1)
    c2 = numpy.stack([nc["Rxy_upper_right_corners"], nc["Zxy_upper_right_corners"]], -1)
    c3 = numpy.stack([nc["Rxy_upper_left_corners"], nc["Zxy_upper_left_corners"]], -1)

    def cross(a, b):
        return a[..., 0] * b[..., 1] - a[..., 1] * b[..., 0]

    area2 = cross(c1 - c0, c2 - c0) + cross(c2 - c0, c3 - c0)
    orient = numpy.sign(area2)
    # per-corner turning signs: a simple convex-or-concave quad without self-intersection has
    # the two diagonals' end points on opposite sides
    d1 = numpy.sign(cross(c2 - c0, c1 - c0)) * numpy.sign(cross(c2 - c0, c3 - c0))
    d2 = numpy.sign(cross(c3 - c1, c0 - c1)) * numpy.sign(cross(c3 - c1, c2 - c1))
    bowtie = (d1 > 0) & (d2 > 0)
    maj = 1.0 if (orient > 0).sum() >= (orient < 0).sum() else -1.0
    # a cell that turns through a large angle (very few cells round a closed surface) is not a
    # quadrilateral in any useful sense: only judge cells whose y-edges are close to their arcs
    dyv = nc["dy"]
    chord_l = numpy.linalg.norm(c3 - c0, axis=-1)
    chord_r = numpy.linalg.norm(c2 - c1, axis=-1)
    arc = nc["hy"] * dyv
    resolved = (chord_l > 0.9 * numpy.minimum(arc, nc["hy_xlow"] * dyv)) & (chord_r > 0.5 * arc)
    bad = ((orient != maj) | bowtie) & resolved
    if bad.any():
        x, y = numpy.argwhere(bad)[0]
        fail(
            "C12/folded-cell",
            {"x": int(x), "yfile": int(y), "count": int(bad.sum()), "corners": [c0[x, y].tolist(), c1[x, y].tolist(), c2[x, y].tolist(), c3[x, y].tolist()]},
        )
    # cell centre inside its own quadrilateral
    return fails


def documented_refusals(case):
    """Configurations hypnotoad documents as refused must not come out as a grid: a connected double
    null (nx_inter_sep=0) whose second X-point lies beyond the first gridded flux surface of the inner
    or outer SOL ('Cannot create connected double-null grid ...')."""
    side = case.side
    out = []
    ps = side.get("psi_sep") or []
    if side.get("double_null_type") == "connected" and len(ps) >= 2 and side.get("psi_axis") is not None:
        sgn = numpy.sign(ps[0] - side["psi_axis"])
        for name in ("inner_core", "outer_core"):
            reg = side.get("eq_regions", {}).get(name)
            if reg is None or len(reg["psi_vals"]) < 2:
                continue
            first_centre = float(reg["psi_vals"][1][1])
            if sgn * (first_centre - ps[1]) < 0:
                out.append(
                    ("C12/accepted-documented-refusal/connected-double-null-second-xpoint-beyond-first-sol-surface",
                     {"region": name, "psi_sep": [float(p) for p in ps], "first_sol_cell_centre": first_centre}, {})
                )
    return out


def check(case):
    desc = case.desc
    fails = validate(case)
    if isinstance(case.side, dict) and "eq_regions" in case.side:
        fails += documented_refusals(case)
    lab = {"nonorthogonal_spacing_method": None, "stratum": desc.get("stratum", "adversarial")}
    try:
        import yaml

        o = yaml.safe_load(case.nc["hypnotoad_inputs_yaml"])
        lab["nonorthogonal_spacing_method"] = o.get("nonorthogonal_spacing_method") if not o.get("orthogonal", True) else None
        lab["loose_follow_perpendicular_atol"] = bool(float(o.get("follow_perpendicular_atol", 1e-8)) > 1e-6)
    except Exception:  # noqa: BLE001
        fails.append(("C12/inputs-yaml-not-loadable", {}, {}))
    fails = [(b, d, dict(lab, **(l or {}))) for b, d, l in fails]
    if desc.get("must_raise"):
        fails.append(
            ("C12/accepted-" + desc["must_raise"], {"note": "a grid was written although the input must be rejected", "what": desc.get("why")}, lab)
        )
    return {"fails": fails, "nontrivial": True, "margins": {}, "hist": ["validated-grid/%s" % desc.get("stratum", "adversarial")]}


# ---------------------------------------------------------------------------------- corpus --
def adversarial(tier, seed):
    from hypothesis import strategies as st

    @st.composite
    def build(draw):
        base = draw(corpus.g_case_strategy())
        d = copy.deepcopy(base)
        o = d["options"]
        o["psi_interpolation_method"] = "spline"
        d["eq"]["nR"] = d["eq"]["nZ"] = draw(st.sampled_from([17, 25, 33, 49, 65]))
        kind = draw(
            st.sampled_from(
                ["psinorm-beyond-wall", "psinorm-past-second-xpoint", "tiny-ny", "nx1", "many-guards", "extreme-spacing",
                 "coarse-input", "core-too-deep", "tight-tolerances", "loose-tolerances", "nonorth-methods", "big-jitter",
                 "connected-dn-threshold"]
            )
        )
        d["stratum"] = "adversarial/" + kind
        if kind == "psinorm-beyond-wall":
            o["psinorm_sol"] = draw(st.sampled_from([1.3, 1.5, 2.0, 3.0]))
        elif kind == "psinorm-past-second-xpoint":
            o["psinorm_sol"] = draw(st.sampled_from([1.25, 1.35]))
            o["psinorm_pf"] = draw(st.sampled_from([0.6, 0.75]))
        elif kind == "tiny-ny":
            for k in list(o):
                if k.startswith("ny_"):
                    o[k] = draw(st.sampled_from([1, 2, 2, 3]))
        elif kind == "nx1":
            for k in list(o):
                if k.startswith("nx_") and k != "nx_inter_sep":
                    o[k] = 1
        elif kind == "many-guards":
            o["y_boundary_guards"] = draw(st.sampled_from([3, 4, 6]))
        elif kind == "extreme-spacing":
            o["target_all_poloidal_spacing_length"] = draw(st.sampled_from([1e-3, 1e-2, 10.0, 1e3]))
            o["xpoint_poloidal_spacing_length"] = draw(st.sampled_from([1e-4, 1e-3, 1.0, 1e2]))
            o["psi_spacing_separatrix_multiplier"] = draw(st.sampled_from([1e-3, 0.05, 2.0, 8.0]))
        elif kind == "coarse-input":
            d["eq"]["nR"] = d["eq"]["nZ"] = draw(st.sampled_from([9, 13, 17]))
        elif kind == "core-too-deep":
            o["psinorm_core"] = draw(st.sampled_from([0.05, 0.2, 0.5]))
        elif kind == "tight-tolerances":
            o["refine_atol"] = 1e-14
            o["follow_perpendicular_rtol"] = 1e-13
            o["follow_perpendicular_atol"] = 1e-15
            o["geometry_rtol"] = 1e-13
        elif kind == "loose-tolerances":
            o["refine_atol"] = draw(st.sampled_from([1e-4, 1e-3]))
            o["follow_perpendicular_rtol"] = 1e-3
            o["follow_perpendicular_atol"] = 1e-3
            o["geometry_rtol"] = 1e-2
        elif kind == "nonorth-methods":
            o["orthogonal"] = False
            o["nonorthogonal_spacing_method"] = draw(st.sampled_from(["orthogonal", "perp_orthogonal_combined", "poloidal_orthogonal_combined", "combined"]))
            o["poloidal_spacing_method"] = draw(st.sampled_from(["linear", "monotonic", "sqrt"]))
        elif kind == "connected-dn-threshold":
            # nearly connected double null gridded as connected, SOL widths around the documented
            # refusal threshold (second X-point vs first gridded SOL surface), inner SOL narrower
            from .. import families

            e = d["eq"]
            e["topology"] = "cdn"
            e.pop("geom", None)
            e["wall"] = {"kind": "rect"}
            e["delta"] = draw(st.sampled_from([5e-4, -5e-4, 1e-3, -1e-3, 2e-3]))
            crit = families.g_critical(e)
            p2 = (crit["x"][1][2] - crit["o"][2]) / (crit["x"][0][2] - crit["o"][2])
            for k in list(o):
                if k.startswith(("ny_", "nx_", "psinorm", "target_", "nonorthogonal_target")):
                    o.pop(k)
            nx_sol = draw(st.integers(1, 3))
            w_in = 2 * nx_sol * (p2 - 1.0) * draw(st.sampled_from([0.5, 0.8, 1.2, 2.0]))
            o.update(nx_core=2, nx_sol=nx_sol, psinorm_core=0.9, psinorm_pf=0.95, psi_spacing_separatrix_multiplier=1.0,
                     psinorm_sol_inner=round(1.0 + max(w_in, 0.004), 5), psinorm_sol=round(1.0 + max(4 * w_in, 0.02), 5))
            for k in ("ny_inner_lower_divertor", "ny_inner_upper_divertor", "ny_outer_lower_divertor", "ny_outer_upper_divertor", "ny_inner_sol", "ny_outer_sol"):
                o[k] = 4
            o.pop("start_at_upper_outer", None)
        elif kind == "big-jitter":
            d["eq"]["jitter"] = {"r0": draw(st.sampled_from([0.9, 1.1])), "wR": draw(st.sampled_from([0.7, 1.3])), "wZ": 1.0,
                                 "sep": draw(st.sampled_from([0.8, 1.25])), "zc": draw(st.sampled_from([-0.1, 0.1]))}
        return d

    n = 30 if tier == "quick" else 320
    return corpus.collect(build(), n, seed + 1200, keyfn=lambda d: d["stratum"], oversample=10)


def must_reject(tier, seed):
    """Inputs that must be refused: unknown / invalid options, equilibrium-mesh mismatch."""
    eq = {"topology": "lsn", "sign": 1.0, "fpol": [2.0, 0.1, 0, 0], "nR": 49, "nZ": 49}
    small = {"nx_core": 1, "nx_sol": 1, "ny_inner_divertor": 3, "ny_outer_divertor": 3, "ny_sol": 4, "finecontour_Nfine": 40}
    out = []
    for key, val, why in [
        ("not_an_option", 1, "unknown option in the input file"),
        ("target_poloidal_spacing_length", 0.05, "option name from before version 0.3 (unknown)"),
        ("nx_core", -2, "negative nx"),
        ("nx_core", 2.5, "non-integer nx"),
        ("finecontour_Nfine", 0, "Nfine must be positive"),
        ("psi_interpolation_method", "cubic", "value not in the allowed list"),
        ("poloidal_spacing_method", "random", "value not in the allowed list"),
        ("curvature_type", "bxkappa", "documented as not implemented"),
        ("xpoint_offset", 1.5, "must be < 1"),
        ("y_boundary_guards", -1, "negative guard count"),
        ("finecontour_overdamping_factor", 2.0, "must be in (0, 1]"),
        ("orthogonal", "yes", "wrong type"),
    ]:
        o = dict(small)
        o[key] = val
        out.append({"family": "G", "entry": "geqdsk-cli", "eq": eq, "options": o, "must_raise": "invalid-input/%s" % key, "why": why, "stratum": "must-reject"})
    o = dict(small, limiter=False, nx=3, ny=6)
    for key, val in [("not_an_option", 1), ("nx", -1), ("q_coefficients", [-1.0])]:
        oo = {"nx": 3, "ny": 6, key: val}
        out.append({"family": "C", "entry": "circular-cli", "eq": {}, "options": oo, "must_raise": "invalid-input/circular/%s" % key, "why": "invalid circular option", "stratum": "must-reject"})
    # options consumed by both the equilibrium and the mesh (the run-time consistency check of
    # MeshRegion); tokamak-only options such as nx_core or psinorm_sol are not used by the mesh at all,
    # so a changed value in the mesh's dictionary is ignored by design (the scripts hand one dictionary
    # to both) - not an inconsistency the property speaks of
    for key, val in [("orthogonal", False), ("finecontour_Nfine", 80), ("y_boundary_guards", 1), ("refine_atol", 1e-7), ("refine_width", 0.1)]:
        out.append({"family": "G", "entry": "api-inconsistent", "eq": eq, "options": dict(small), "mesh_option_change": {key: val},
                    "must_raise": "equilibrium-mesh-mismatch/%s" % key, "why": "mesh built with %s changed since the equilibrium was created" % key, "stratum": "must-reject"})
    return out if tier != "quick" else out[:8] + out[-3:]


def shipped(tier):
    out = []
    geoms = ["lsn", "usn", "cdn", "udn", "ldn", "udn2"]
    for gname in geoms:
        out.append({"family": "X", "entry": "example-script", "geometry": gname, "nx": 65, "ny": 65, "stratum": "shipped/examples-tokamak/%s" % gname, "must_generate": True})
    if tier != "quick":
        for gname in geoms:
            out.append({"family": "X", "entry": "example-script", "geometry": gname, "nx": 97, "ny": 81, "stratum": "shipped/examples-tokamak/%s@97x81" % gname, "must_generate": True})
    for y in ("torpex-coils.yaml", "torpex-coils-nonorth.yaml"):
        out.append({"family": "X", "entry": "torpex-cli", "yaml_file": "examples/torpex-xpoint/" + y, "stratum": "shipped/torpex/" + y, "must_generate": True})
    cdn = {"topology": "cdn", "sign": 1.0, "fpol": [2.0, 0.1, 0, 0], "pres": [1000.0, -0.5, 0, 0], "nR": 65, "nZ": 65}
    ldn = {"topology": "ldn", "sign": 1.0, "delta": 0.01, "fpol": [2.0, 0.1, 0, 0], "pres": [1000.0, -0.5, 0, 0], "nR": 65, "nZ": 65}
    small = {k: 3 for k in ["ny_inner_lower_divertor", "ny_inner_upper_divertor", "ny_outer_lower_divertor", "ny_outer_upper_divertor", "ny_inner_sol", "ny_outer_sol"]}
    for y in (
        "integrated_tests/connected_doublenull_orthogonal/test_orthogonal.yml",
        "integrated_tests/connected_doublenull_orthogonal/test_orthogonal_np2.yml",
        "integrated_tests/connected_doublenull_orthogonal/test_orthogonal_all-options.yml",
        "integrated_tests/connected_doublenull_nonorthogonal/test_nonorthogonal.yml",
        "integrated_tests/connected_doublenull_nonorthogonal/test_nonorthogonal_np2.yml",
        "integrated_tests/connected_doublenull_nonorthogonal/test_nonorthogonal_all-options.yml",
    ):
        # the reference settings with the (large) default grid sizes reduced; tolerances of the
        # reference files that are tighter than double precision allows on this equilibrium relaxed
        # xpoint_refine_atol=1e-30 of the reference settings needs Br^2+Bz^2 to reach exactly zero,
        # which the reference equilibrium allows and the harness' analytic one does not
        ov = dict(small, nx_core=2, nx_sol=2, ny_sol=None, xpoint_refine_atol=1e-20)
        out.append({"family": "G", "entry": "geqdsk-cli", "eq": cdn, "yaml_file": y, "yaml_overrides": {k: v for k, v in ov.items() if v is not None},
                    "stratum": "shipped/integrated-tests/" + y.split("/")[-1], "must_generate": True})
    out.append({"family": "G", "entry": "geqdsk-cli", "eq": cdn, "yaml_file": "geqdsk_cdn.yaml", "stratum": "shipped/geqdsk_cdn.yaml", "must_generate": True})
    out.append({"family": "G", "entry": "geqdsk-cli", "eq": ldn, "yaml_file": "geqdsk_ldn.yaml", "stratum": "shipped/geqdsk_ldn.yaml", "must_generate": True})
    return out


def run(run):
    descs = adversarial(run.tier, run.seed) + must_reject(run.tier, run.seed) + shipped(run.tier)
    timeout = 400 if run.tier == "quick" else 1200
    cases = gridlab.run_cases(descs, timeout=timeout)
    outs = gridcheck.check_cases("vf.props.c12", "check", cases)
    for c, out in zip(cases, outs):
        d = c.desc
        st_ = d.get("stratum", "adversarial")
        run.bump("%s/%s" % (st_.split("/")[0] if st_.startswith("adversarial") else st_.split("/")[0], c.outcome))
        if st_.startswith("adversarial"):
            run.bump("%s/%s" % (st_, c.outcome))
        if c.outcome == "timeout":
            run.inconclusive += 1
            run.count(d, nontrivial=False)
            continue
        if c.outcome == "raised" and d.get("must_generate") and d.get("entry") == "geqdsk-cli":
            # The equilibrium these option files were written for is not available (git-LFS
            # pointer), the harness substitutes its analytic family. What can be decided is
            # whether the entry point accepts the option file; failures later, while gridding the
            # substitute equilibrium, are inconclusive.
            tb = c.status.get("traceback", "")
            rejected = c.status.get("exc_at", "").startswith("hypnotoad_geqdsk.py") or "optionsfactory" in tb
            if not rejected:
                run.bump("shipped-option-file-accepted-but-substitute-equilibrium-not-gridded/%s" % st_.split("/")[-1])
                run.inconclusive += 1
                run.count(d, nontrivial=True, key=gridlab.desc_id(d))
                continue
        if c.outcome == "raised":
            if d.get("must_generate"):
                run.count(d, nontrivial=True, key=gridlab.desc_id(d))
                run.failure(
                    "C12/shipped-input-does-not-generate/%s" % st_,
                    {"exception": c.status.get("exc_type"), "message": c.status.get("exc_msg", "")[:400], "at": c.status.get("exc_at")},
                    {"desc": d},
                    {"stratum": st_},
                )
            else:
                run.count(d, nontrivial=bool(d.get("must_raise")), key=gridlab.desc_id(d))
                run.bump("refusal-type/%s" % c.status.get("exc_type"))
            continue
        run.count(d, nontrivial=True, key=gridlab.desc_id(d))
        if len(run.samples) < 5:
            run.sample({k: v for k, v in d.items() if k != "eq"} if d.get("family") == "G" else d)
        for b, det, lab in out["fails"]:
            lab = dict(lab or {})
            lab["stratum"] = st_
            run.failure(b, det, {"desc": d}, lab)
    run.rule = RULE
    run.assumptions = [
        "any exception (including FunctionTimedOut, a BaseException) is an explicit refusal",
        "documented NaNs: chi on open field lines (and everywhere when Bt = 0), ShiftAngle and "
        "total_poloidal_distance outside the core",
        "integrated-test reference settings are run with their grid sizes reduced (3 cells per region, nx 2+2); all "
        "other settings as shipped; the geqdsk input is harness-written from the analytic family (the shipped "
        ".eqdsk files are git-LFS pointers), so for these option files only their acceptance by the entry point "
        "(unused-option check, optionsfactory validation) is decided; a failure while gridding the substitute "
        "equilibrium is counted as inconclusive",
        "a per-case wall-clock cap classifies a case as inconclusive, never as a violation",
    ]


def replay(run, payload):
    desc = payload["case"]["desc"]
    cases = gridlab.run_cases([desc], timeout=1800)
    c = cases[0]
    if c.outcome == "raised":
        if desc.get("must_generate"):
            run.failure(payload["bucket"], {"message": c.status.get("exc_msg", "")[:400]}, {"desc": desc}, payload.get("labels"))
        return
    outs = gridcheck.check_cases("vf.props.c12", "check", cases, processes=1)
    for b, d, lab in (outs[0] or {}).get("fails", []):
        if b == payload["bucket"]:
            run.failure(b, d, {"desc": desc}, lab)
