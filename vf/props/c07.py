"""C07 - curvature outputs are the contravariant components of curl(b/B)."""

import copy

import numpy

from .. import corpus, gridcheck, gridlab

LEVEL = "exploration"
RULE = (
    "shared gridlab corpus (Gaussian-sum tokamak family with non-constant fpol, both signs, orthogonal "
    "and non-orthogonal, all topologies reached; circular with one and two q coefficients) plus a "
    "non-orthogonal supplement: curl(b/B) in cylindrical components from the harness' reference field "
    "(own vector-calculus chain on psi, its first/second derivatives and fpol, fpol'), projected on "
    "grad x = grad psi, grad y (perpendicular to the measured radial grid direction, magnitude "
    "1/(hy cos beta)) and grad z. non-trivial = grid with Bt != 0; distinct = descriptor hash. "
    "Metamorphic: both curvature_type formulations at (nx,ny) and (2nx,2ny)."
)


class Fields:
    """curl(b/B) of the reference field, derived here from scratch."""

    def __init__(self, cref):
        self.c = cref
        self.ref = cref.ref

    def fpol(self, psi):
        return self.c.fpol(psi)

    def fpolprime(self, psi, eps=None):
        if self.c.desc["family"] in ("C", "T"):
            # circular: dfpol/dpsi is not used by that class' curvature; TORPEX: fpol is constant
            return 0.0 * numpy.asarray(psi)
        # derivative of the clipped generating cubic: central difference of the exact polynomial
        span = abs(self.c.psi1D[-1] - self.c.psi1D[0])
        h = 1e-6 * span
        d = (self.c.fpol(psi + h) - self.c.fpol(psi - h)) / (2 * h)
        # at the two ends of the profile grid the derivative jumps to zero (hypnotoad holds the profile
        # constant outside it): no reference value there, e.g. on the separatrix when the profiles end at
        # normalised psi 1
        psi = numpy.asarray(psi, dtype=float)
        edge = numpy.minimum(numpy.abs(psi - self.c.psi1D[0]), numpy.abs(psi - self.c.psi1D[-1])) < 4 * h
        return numpy.where(edge, numpy.nan, d)

    def curl(self, R, Z):
        r = self.ref
        p = r.psi(R, Z)
        pR, pZ = r.dR(R, Z), r.dZ(R, Z)
        pRR, pZZ, pRZ = r.dRR(R, Z), r.dZZ(R, Z), r.dRZ(R, Z)
        f, fp = self.fpol(p), self.fpolprime(p)
        BR, BZ, Bt = pZ / R, -pR / R, f / R
        B2 = BR**2 + BZ**2 + Bt**2
        # derivatives of the components
        BR_R = pRZ / R - pZ / R**2
        BR_Z = pZZ / R
        BZ_R = -pRR / R + pR / R**2
        BZ_Z = -pRZ / R
        Bt_R = fp * pR / R - f / R**2
        Bt_Z = fp * pZ / R
        B2_R = 2 * (BR * BR_R + BZ * BZ_R + Bt * Bt_R)
        B2_Z = 2 * (BR * BR_Z + BZ * BZ_Z + Bt * Bt_Z)
        # A = B/B^2 ; curl in cylindrical (R, zeta, Z), axisymmetric
        At = Bt / B2
        At_R = Bt_R / B2 - Bt * B2_R / B2**2
        At_Z = Bt_Z / B2 - Bt * B2_Z / B2**2
        AR_Z = BR_Z / B2 - BR * B2_Z / B2**2
        AZ_R = BZ_R / B2 - BZ * B2_R / B2**2
        cR = -At_Z
        cZ = At / R + At_R
        ct = AR_Z - AZ_R
        return dict(cR=cR, cZ=cZ, ct=ct, BR=BR, BZ=BZ, Bt=Bt, B=numpy.sqrt(B2), pR=pR, pZ=pZ)


def selftest():
    """The harness' curl chain against finite differences on an analytic field (no hypnotoad)."""
    from .. import families

    class A:
        pass

    g = families.GaussSum([(1.5, 0.0, 0.3, 0.3, 1.0), (1.5, -0.6, 0.3, 0.3, 1.0)])
    c = A()
    c.desc = {"family": "G"}
    c.ref = g
    c.psi1D = numpy.array([1.0, 0.3])
    c.fpol = lambda p: 2.0 + 0.3 * numpy.asarray(p) + 0.1 * numpy.asarray(p) ** 2
    F = Fields(c)
    R, Z = numpy.array([1.37, 1.62]), numpy.array([-0.11, 0.23])
    out = F.curl(R, Z)

    def Avec(R, Z):
        o = F.curl(R, Z)
        B2 = o["B"] ** 2
        return o["BR"] / B2, o["BZ"] / B2, o["Bt"] / B2

    h = 1e-5
    AtZ = (Avec(R, Z + h)[2] - Avec(R, Z - h)[2]) / (2 * h)
    RAtR = ((R + h) * Avec(R + h, Z)[2] - (R - h) * Avec(R - h, Z)[2]) / (2 * h)
    ARZ = (Avec(R, Z + h)[0] - Avec(R, Z - h)[0]) / (2 * h)
    AZR = (Avec(R + h, Z)[1] - Avec(R - h, Z)[1]) / (2 * h)
    assert numpy.allclose(out["cR"], -AtZ, rtol=1e-6, atol=1e-9), (out["cR"], -AtZ)
    assert numpy.allclose(out["cZ"], RAtR / R, rtol=1e-6, atol=1e-9)
    assert numpy.allclose(out["ct"], ARZ - AZR, rtol=1e-6, atol=1e-9)
    return True


def check(case):
    nc, side = case.nc, case.side
    desc = case.desc
    has_bt = bool(numpy.any(nc["Btxy"] != 0.0))
    if "curl_bOverB_x" not in nc:
        return {"fails": [("C07/curl-variables-missing", {}, {})], "nontrivial": False, "margins": {}, "hist": []}
    ctype = side["mesh_options"].get("curvature_type", "curl(b/B)")
    orth = bool(side["mesh_options"].get("orthogonal", True))
    cref = gridcheck.CaseRef(desc)
    F = Fields(cref)
    fails = []
    margins = {}
    hist = ["curvature_type/%s/%s" % (ctype, "orth" if orth else "nonorth")]
    xpts = side.get("x_points", [])
    nq = len(cref.ref.q) if desc["family"] == "C" else 0

    def fail(bucket, detail, labels=None):
        if not any(x[0] == bucket for x in fails):
            lab = {"orthogonal": orth, "curvature_type": ctype, "n_q_coefficients": nq}
            lab.update(labels or {})
            fails.append((bucket, detail, lab))

    def margin(name, v):
        if numpy.isfinite(v):
            margins[name] = max(margins.get(name, 0.0), float(v))

    # bxcv = Bxy/2 * curl everywhere
    for comp in "xyz":
        for sfx in ("", "_xlow", "_ylow"):
            a = nc["bxcv" + comp + sfx]
            b = nc["Bxy" + sfx] / 2.0 * nc["curl_bOverB_" + comp + sfx]
            with numpy.errstate(all="ignore"):
                okm = numpy.isfinite(a) & numpy.isfinite(b)
                e = numpy.abs(a - b)[okm] / (numpy.abs(b)[okm] + 1e-300) if okm.any() else numpy.zeros(1)
            if okm.any() and e.max() > 1e-12:
                fail("C07/bxcv-not-B/2-curl/%s%s" % (comp, sfx), {"max_rel_err": float(e.max())})
    if ctype != "curl(b/B)":
        # the x-y derivative form is a finite-difference approximation: compared in the
        # metamorphic stratum only
        return {"fails": fails, "nontrivial": has_bt, "margins": margins, "hist": hist}
    for rid, reg in side["regions"].items():
        f = reg["fields"]
        locs = {"centre": ("xlow", None), "ylow": ("corners", None)}
        if orth:
            locs["xlow"] = (None, None)
        for loc, (exsrc, _) in locs.items():
            R, Z = f["Rxy"][loc], f["Zxy"][loc]
            c = F.curl(R, Z)
            hy = f["hy"][loc]
            Bp = f["Bpxy"][loc]
            dph = f["dphidy"][loc]
            gx = numpy.stack([c["pR"], c["pZ"]], -1)
            want_x = c["cR"] * gx[..., 0] + c["cZ"] * gx[..., 1]
            if exsrc is None or orth:
                # orthogonal: grad y = (B_R, B_Z)/(hy Bp)
                gy = numpy.stack([c["BR"], c["BZ"]], -1) / (hy * Bp)[..., None]
            else:
                Ax, Az = f["Rxy"][exsrc], f["Zxy"][exsrc]
                ex = numpy.stack([Ax[1:] - Ax[:-1], Az[1:] - Az[:-1]], -1)
                exh = ex / numpy.linalg.norm(ex, axis=-1, keepdims=True)
                gh = gx / numpy.linalg.norm(gx, axis=-1, keepdims=True)
                cosb = numpy.abs((exh * gh).sum(-1))
                n = numpy.stack([exh[..., 1], -exh[..., 0]], -1)  # perpendicular to e_x
                # pointing towards increasing y: same side as Bp*sign(Bpxy)
                bdir = numpy.stack([c["BR"], c["BZ"]], -1) * numpy.sign(Bp)[..., None]
                n = n * numpy.sign((n * bdir).sum(-1))[..., None]
                gy = n / (hy * cosb)[..., None]
            want_y = c["cR"] * gy[..., 0] + c["cZ"] * gy[..., 1]
            # grad z = zetahat/R - (Bt hy/(Bp R)) grad y
            want_z = c["ct"] / R - dph * want_y
            near = gridcheck.near_xpoint_mask(R, Z, xpts, 0.0)
            if loc == "ylow" and side["mesh_options"].get("cap_Bp_ylow_xpoint"):
                # the documented 'fudge' replaces Bpxy_ylow on the y-faces next to an X-point: what
                # is derived from it there is no longer the curvature of the equilibrium field
                near = near.copy()
                if any(p is not None for p in reg["xp_start"]):
                    near[:, 0] = True
                if any(p is not None for p in reg["xp_end"]):
                    near[:, -1] = True
            for comp, want in (("x", want_x), ("y", want_y), ("z", want_z)):
                got = f["curl_bOverB_" + comp].get(loc)
                if got is None:
                    continue
                sc = numpy.nanmax(numpy.abs(want)) + 1e-300
                tol = 1e-6 * numpy.abs(want) + 1e-7 * sc
                with numpy.errstate(all="ignore"):
                    r = numpy.abs(got - want) / tol
                r = numpy.where(near | ~numpy.isfinite(want), 0.0, r)
                r = numpy.where(numpy.isfinite(got), r, numpy.inf)
                margin("curl-%s" % comp, r.max())
                if r.max() > 1.0:
                    i, j = numpy.unravel_index(int(numpy.argmax(r)), r.shape)
                    fail(
                        "C07/curl_bOverB_%s/%s/%s" % (comp, loc, "circular-q%d" % nq if nq else ("orth" if orth else "nonorth")),
                        {"region": reg["name"], "ix": int(i), "iy": int(j), "got": float(got[i, j]), "want": float(want[i, j])},
                    )

    if not orth and has_bt and not numpy.any(nc["curl_bOverB_y_xlow"]) and not numpy.any(nc["curl_bOverB_z_xlow"]):
        fail("C07/xlow-curvature-not-computed/nonorth", {"note": "curl_bOverB_y_xlow and curl_bOverB_z_xlow are all zero in the file"})
    return {"fails": fails, "nontrivial": has_bt, "margins": margins, "hist": hist}


def supplement(tier):
    out = []
    tops = ["cdn", "usn"] if tier == "quick" else ["cdn", "usn", "lsn", "ldn", "udn"]
    for top in tops:
        for sign in (1.0, -1.0):
            o = {"orthogonal": False, "nx_core": 3, "nx_sol": 3, "finecontour_Nfine": 60}
            if top in ("usn", "lsn"):
                o.update(ny_inner_divertor=5, ny_outer_divertor=5, ny_sol=10)
            else:
                o.update({k: 5 for k in ["ny_inner_lower_divertor", "ny_inner_upper_divertor", "ny_outer_lower_divertor", "ny_outer_upper_divertor", "ny_inner_sol", "ny_outer_sol"]})
                if top in ("ldn", "udn"):
                    o["nx_inter_sep"] = 1
            out.append({"family": "G", "eq": {"topology": top, "sign": sign, "fpol": [2.0, 0.1, 0, 0]}, "options": o})
    # circular with one and two q coefficients
    for q in ([2.5], [2.0, 5.0], [1.5, 3.0]):
        out.append({"family": "C", "eq": {}, "options": {"nx": 3, "ny": 8, "r_inner": 0.1, "r_outer": 0.3, "R0": 1.3, "q_coefficients": q, "orthogonal": True, "finecontour_Nfine": 50}})
    return out


def interior_diff(case_a, case_b):
    """Interior centres, R-Z form vs x-y derivative form of curl(b/B), relative to the largest value:
    (median, 90th percentile, maximum) of |difference| per component."""
    worst = {}
    for comp in "xyz":
        a = case_a.nc["curl_bOverB_" + comp]
        b = case_b.nc["curl_bOverB_" + comp]
        t = case_a.nc
        myg = int(t["y_boundary_guards"])
        sl = (slice(1, -1), slice(myg + 1, a.shape[1] - myg - 1))
        # the x-y form differentiates hy/Bp, singular at an X-point: cells where the poloidal field is
        # weak (next to an X-point) keep an O(1) difference at every resolution and are left out; a finer
        # grid has cells closer to that limit, so the maximum is not a convergence measure either
        bp = numpy.abs(t["Bpxy"][sl])
        keep = bp > 0.4 * bp.max()
        sc = numpy.abs(a[sl][keep]).max() + 1e-300
        e = (numpy.abs(a[sl] - b[sl]) / sc)[keep]
        worst[comp] = {"median": float(numpy.median(e)), "p90": float(numpy.percentile(e, 90)), "max": float(e.max())}
    return worst


def metamorphic(run):
    base = [{"family": "C", "eq": {}, "options": {"nx": 4, "ny": 8, "r_inner": 0.1, "r_outer": 0.3, "R0": 1.3, "q_coefficients": [2.5], "orthogonal": True, "finecontour_Nfine": 100}}]
    # tokamak members with psi decreasing (sign +1) and increasing (sign -1) outwards: the x-y form
    # once carried a factor bpsign too many, invisible on the circular case
    gs = [("lsn", 1.0)] if run.tier == "quick" else [("lsn", 1.0), ("lsn", -1.0), ("usn", 1.0), ("cdn", 1.0), ("cdn", -1.0)]
    for top, sign in gs:
        o = {"orthogonal": True, "nx_core": 3, "nx_sol": 3, "finecontour_Nfine": 100}
        if top == "cdn":
            o.update({k: 4 for k in ["ny_inner_lower_divertor", "ny_inner_upper_divertor", "ny_outer_lower_divertor", "ny_outer_upper_divertor", "ny_inner_sol", "ny_outer_sol"]})
        else:
            o.update(ny_inner_divertor=4, ny_outer_divertor=4, ny_sol=8)
        base.append({"family": "G", "eq": {"topology": top, "sign": sign, "fpol": [2.0, 0.1, 0, 0]}, "options": o})
    descs = []
    for b in base:
        for mult in (1, 2):
            for ct in ("curl(b/B)", "curl(b/B) with x-y derivatives"):
                d = copy.deepcopy(b)
                for k in list(d["options"]):
                    if (k.startswith(("nx_", "ny_")) or k in ("nx", "ny")) and isinstance(d["options"][k], int):
                        d["options"][k] *= mult
                d["options"]["curvature_type"] = ct
                descs.append(d)
    cases = gridlab.run_cases(descs, timeout=1200)
    for k in range(0, len(cases), 4):
        grp = cases[k : k + 4]
        if any(c.outcome != "grid" for c in grp):
            run.bump("curvature_type-metamorphic/not-all-generated")
            continue
        d1 = interior_diff(grp[0], grp[1])
        d2 = interior_diff(grp[2], grp[3])
        run.count(descs[k], nontrivial=True, key="meta:" + gridlab.desc_id(descs[k]))
        run.extra.setdefault("curvature_type_difference", []).append({"resolution_1": d1, "resolution_2": d2})
        for comp in "xyz":
            m1, m2 = d1[comp]["median"], d2[comp]["median"]
            ratio = m1 / max(m2, 1e-300)
            # "agree to the discretisation error of the grid": typical (median) difference shrinks under
            # refinement unless it is already at the level of the other errors (hy from the FineContour),
            # nine cells out of ten agree to 5% on the finer grid, and no kept cell is off by its own size
            # (a wrong sign gives 2)
            small = m1 < 5e-3 and m2 < 5e-3
            run.bump("curvature_type-metamorphic/%s-median-ratio-%s" % (comp, "small" if small else ("ok" if ratio >= 1.4 else "low")))
            if (not small and ratio < 1.4) or d2[comp]["p90"] > 0.05 or d2[comp]["max"] > 0.5 or d1[comp]["max"] > 0.5:
                run.failure(
                    "C07/curvature_type-formulations-do-not-converge/%s" % comp,
                    {"difference_at_(nx,ny)": d1, "difference_at_(2nx,2ny)": d2},
                    {"desc": descs[k]},
                    {},
                )


def run(run):
    selftest()
    descs = corpus.base_corpus(run.tier, run.seed) + supplement(run.tier)
    gridcheck.run_corpus_property(run, "vf.props.c07", "check", descs)
    metamorphic(run)
    run.rule = RULE
    run.assumptions = [
        "curl(b/B) reference: harness' own chain (validated against finite differences of an analytic field "
        "in selftest()) on the reference interpolant; tolerance 1e-6 relative + 1e-7 of the component's scale",
        "grad y on non-orthogonal grids: unit vector perpendicular to the radial grid direction measured from the "
        "x-face neighbours (corner neighbours at ylow), towards increasing y, magnitude 1/(hy cos beta)",
        "points exactly at an X-point are exempt (Bp = 0)",
    ]


def replay(run, payload):
    if "formulations" in payload["bucket"]:
        print("metamorphic replay: re-run the check")
        return
    gridcheck.replay_corpus_property(run, "vf.props.c07", "check", payload)
