"""C20 - segment/polygon predicates agree with exact rational arithmetic.

Strata
  lattice   exhaustive: all ordered segments x all closed 3-vertex polylines on {0..k}^2
            (find_intersections, wallIntersection, metamorphic variants), exact oracle
  reals     Hypothesis: random real coordinates, 3..8 vertex polylines, decided only away
            from degenerate configurations (margins stated in RULE)
  closest   closest_approach vs exact squared distance (lattice exhaustive + reals)
  area      polygons.area / clockwise vs exact shoelace
  polyint   polygons.intersect vs exact pairwise proper crossing (closed/closed asserted the
            way the repository calls it; open variants as their own stratum)
"""

import functools
import itertools
import math
from fractions import Fraction

import numpy

from .. import exactgeom as xg
from ..common import ShardResult
from ..unitlab import hyp_search, quiet_stdio, run_shards

LEVEL = "exploration"
PT_TOL = 1e-12
MARGIN = 1e-9

RULE = (
    "lattice stratum: every ordered segment (p1!=p2) x every ordered non-collinear vertex "
    "triple (closed polyline) on the integer lattice {0..k}^2 (k=3 quick, k=4 thorough), "
    "enumerated completely; non-trivial = the segment has a common point with the polyline "
    "(exact rational classification) ; reals stratum: Hypothesis floats in [-10,10] (plus "
    "quarter-integer values) with 3..8 vertex polylines, decided only when every "
    "segment/edge pair is either a crossing with both parameters >= 1e-9 inside (0,1) and "
    "|sin(angle)| >= 1e-9, or separated by >= 1e-8; collinear overlaps are degenerate and "
    "only counted. distinct = distinct (segment, polyline) value tuples."
)


def _hyp():
    from hypnotoad.core import equilibrium as heq
    from hypnotoad.utils import polygons

    return heq, polygons


# --------------------------------------------------------------------------------------
# find_intersections / wallIntersection oracle
# --------------------------------------------------------------------------------------
class _WallStub:
    """Minimal object carrying what Equilibrium.wallIntersection reads."""

    def __init__(self, heq, pts):
        self.wall = [heq.Point2D(float(r), float(z)) for r, z in pts]
        self.closed_wall = self.wall + [self.wall[0]]
        self.closed_wallarray = numpy.array([(p.R, p.Z) for p in self.closed_wall])


def _near(q, pt, scale):
    return (
        abs(q[0] - float(pt[0])) <= PT_TOL * scale
        and abs(q[1] - float(pt[1])) <= PT_TOL * scale
    )


def _segdist2(a, b, c, d):
    """Exact squared distance between two closed segments that do not intersect."""
    return min(
        xg.point_seg_dist2(a, c, d),
        xg.point_seg_dist2(b, c, d),
        xg.point_seg_dist2(c, a, b),
        xg.point_seg_dist2(d, a, b),
    )


@functools.lru_cache(maxsize=200000)
def _seg_seg_cached(p1, p2, c, d):
    kind, pt, par = xg.seg_seg(p1, p2, c, d)
    if kind == "touch" and par is None:
        # collinear segments that share exactly one end point: parallel => degenerate
        kind = "overlap"
    return kind, pt, par


def _fdist(q, a, b):
    """Float distance from q to segment ab (used only to test 'lies on' within 1e-12)."""
    ax, ay, bx, by = float(a[0]), float(a[1]), float(b[0]), float(b[1])
    mx, my = bx - ax, by - ay
    mm = mx * mx + my * my
    t = ((q[0] - ax) * mx + (q[1] - ay) * my) / mm if mm > 0 else 0.0
    t = min(1.0, max(0.0, t))
    return math.hypot(q[0] - (ax + t * mx), q[1] - (ay + t * my))


def classify_edges(poly, p1, p2, lattice):
    """Per wall edge: (kind, point) with kind in proper/touch/overlap/disjoint/ambiguous.

    'overlap' covers every collinear (parallel) configuration with a common point."""
    n = len(poly)
    out = []
    for k in range(n):
        c, d = poly[k], poly[(k + 1) % n]
        if lattice:
            kind, pt, par = _seg_seg_cached(tuple(p1), tuple(p2), tuple(c), tuple(d))
        else:
            kind, pt, par = _seg_seg_cached.__wrapped__(p1, p2, c, d)
        if not lattice:
            # decide only with margins
            if kind == "proper":
                t, u = par
                r = xg.sub(xg.P(p2), xg.P(p1))
                s = xg.sub(xg.P(d), xg.P(c))
                sin2 = Fraction(xg.cross(r, s)) ** 2 / (xg.dot(r, r) * xg.dot(s, s))
                m = Fraction(MARGIN)
                if not (m <= t <= 1 - m and m <= u <= 1 - m and sin2 >= m * m):
                    kind = "ambiguous"
            elif kind == "disjoint":
                if _segdist2(p1, p2, c, d) < Fraction(1e-16):
                    kind = "ambiguous"
            elif kind == "touch":
                kind = "ambiguous"
        out.append((kind, pt))
    return out


def check_find_intersections(poly, p1, p2, lattice, assert_touch, res=None):
    """Returns (failures, nontrivial, degenerate)."""
    heq, _ = _hyp()
    fails = []
    stub = _WallStub(heq, poly)
    edges = classify_edges(poly, p1, p2, lattice)
    kinds = [k for k, _ in edges]
    degenerate = "overlap" in kinds or "ambiguous" in kinds
    if not assert_touch and "touch" in kinds:
        degenerate = True
    scale = 1.0 + max(
        max(abs(float(c)) for pt in poly for c in pt),
        max(abs(float(c)) for c in (*p1, *p2)),
    )
    P1 = heq.Point2D(float(p1[0]), float(p1[1]))
    P2 = heq.Point2D(float(p2[0]), float(p2[1]))
    with numpy.errstate(all="ignore"):
        got = heq.find_intersections(stub.closed_wallarray, P1, P2)
    # inputs must not be modified
    if (P1.R, P1.Z, P2.R, P2.Z) != (
        float(p1[0]),
        float(p1[1]),
        float(p2[0]),
        float(p2[1]),
    ):
        fails.append(("C20/find_intersections/mutates-input", {}, {}))
    pts = [] if got is None else [tuple(map(float, row)) for row in got]
    exact_pts = [pt for k, pt in edges if k in ("proper", "touch")]
    case = {"poly": poly, "p1": p1, "p2": p2}
    if any(not (math.isfinite(q[0]) and math.isfinite(q[1])) for q in pts):
        if not degenerate:
            fails.append(("C20/find_intersections/nonfinite-point", {"got": pts}, {}))
        return fails, bool(exact_pts), degenerate, edges, pts
    # (1) soundness of every reported point: on the segment and on some wall edge
    for q in pts:
        d_seg = _fdist(q, p1, p2)
        d_wall = min(
            _fdist(q, poly[k], poly[(k + 1) % len(poly)]) for k in range(len(poly))
        )
        if d_seg > PT_TOL * scale or d_wall > PT_TOL * scale:
            fails.append(
                (
                    "C20/find_intersections/reported-point-off",
                    {"point": q, "dist_segment": d_seg, "dist_wall": d_wall},
                    {},
                )
            )
            break
    if not degenerate:
        # (2) completeness: each crossing edge's exact point is reported
        for k, (kind, pt) in enumerate(edges):
            if kind == "proper" or (kind == "touch" and assert_touch):
                if not any(_near(q, pt, scale) for q in pts):
                    fails.append(
                        (
                            "C20/find_intersections/missed-%s" % kind,
                            {"edge": k, "exact": [float(pt[0]), float(pt[1])], "got": pts},
                            {},
                        )
                    )
                    break
        # (3) exactly when: nothing reported if every edge is disjoint
        if not exact_pts and pts:
            fails.append(
                ("C20/find_intersections/spurious", {"got": pts}, {})
            )
        # (4) one point per meeting edge
        if len(pts) != len(exact_pts):
            fails.append(
                (
                    "C20/find_intersections/count",
                    {"got": len(pts), "expected": len(exact_pts)},
                    {},
                )
            )
    return fails, bool(exact_pts), degenerate, edges, pts


def check_wall_intersection(poly, p1, p2, edges, degenerate):
    heq, _ = _hyp()
    import matplotlib.pyplot as plt

    fails = []
    if degenerate:
        return fails
    stub = _WallStub(heq, poly)
    scale = 1.0 + max(abs(float(c)) for pt in list(poly) + [p1, p2] for c in pt)
    distinct = []
    for k, pt in edges:
        if k in ("proper", "touch") and pt not in distinct:
            distinct.append(pt)
    P1 = heq.Point2D(float(p1[0]), float(p1[1]))
    P2 = heq.Point2D(float(p2[0]), float(p2[1]))
    raised = None
    got = None
    # the error path draws a figure (20 ms each); plotting is not under test
    saved = plt.plot, plt.show
    plt.plot = plt.show = lambda *a, **k: None
    try:
        with quiet_stdio(), numpy.errstate(all="ignore"):
            got = heq.Equilibrium.wallIntersection(stub, P1, P2)
    except (RuntimeError, ValueError) as e:
        raised = e
    finally:
        plt.plot, plt.show = saved
    nreport = sum(1 for k, _ in edges if k in ("proper", "touch"))
    if len(distinct) == 0:
        if raised is not None or got is not None:
            fails.append(
                ("C20/wallIntersection/spurious", {"got": repr(got), "raised": repr(raised)}, {})
            )
    elif len(distinct) == 1:
        if raised is not None:
            # one geometric point seen from more than two edges is refused explicitly:
            # only possible for non-simple polylines
            if nreport <= 2:
                fails.append(
                    ("C20/wallIntersection/raised-on-single-point", {"raised": repr(raised)}, {})
                )
        elif got is None or not _near((got.R, got.Z), distinct[0], scale):
            fails.append(
                (
                    "C20/wallIntersection/wrong-point",
                    {
                        "got": None if got is None else [got.R, got.Z],
                        "exact": [float(distinct[0][0]), float(distinct[0][1])],
                    },
                    {},
                )
            )
    else:
        if raised is None:
            if got is None or not any(_near((got.R, got.Z), pt, scale) for pt in distinct):
                fails.append(
                    (
                        "C20/wallIntersection/multi-none-or-wrong",
                        {"got": None if got is None else [got.R, got.Z]},
                        {},
                    )
                )
    return fails


def check_metamorphic(poly, p1, p2, pts, degenerate, which=(0, 1, 2)):
    """swap ends / reverse polyline / swap R and Z: same set of reported points."""
    heq, _ = _hyp()
    fails = []
    if degenerate:
        return fails
    scale = 1.0 + max(abs(float(c)) for pt in list(poly) + [p1, p2] for c in pt)

    def call(pl, a, b):
        stub = _WallStub(heq, pl)
        with numpy.errstate(all="ignore"):
            g = heq.find_intersections(
                stub.closed_wallarray,
                heq.Point2D(float(a[0]), float(a[1])),
                heq.Point2D(float(b[0]), float(b[1])),
            )
        return [] if g is None else [tuple(map(float, r)) for r in g]

    def same(A, B):
        if len(A) != len(B):
            return False
        B = list(B)
        for q in A:
            hit = None
            for j, w in enumerate(B):
                if abs(q[0] - w[0]) <= PT_TOL * scale and abs(q[1] - w[1]) <= PT_TOL * scale:
                    hit = j
                    break
            if hit is None:
                return False
            B.pop(hit)
        return True

    if 0 in which:
        v1 = call(poly, p2, p1)
        if not same(pts, v1):
            fails.append(("C20/metamorphic/swap-ends", {"orig": pts, "variant": v1}, {}))
    if 1 in which:
        v2 = call(list(reversed(poly)), p1, p2)
        if not same(pts, v2):
            fails.append(
                ("C20/metamorphic/reverse-polyline", {"orig": pts, "variant": v2}, {})
            )
    sw = lambda p: (p[1], p[0])  # noqa: E731
    if 2 in which:
        v3 = call([sw(p) for p in poly], sw(p1), sw(p2))
        if not same([sw(q) for q in pts], v3):
            fails.append(("C20/metamorphic/swap-RZ", {"orig": pts, "variant": v3}, {}))
    return fails


def check_case(case, lattice, assert_touch=True, which=(0, 1, 2)):
    poly = [tuple(p) for p in case["poly"]]
    p1 = tuple(case["p1"])
    p2 = tuple(case["p2"])
    fails, nontrivial, degenerate, edges, pts = check_find_intersections(
        poly, p1, p2, lattice, assert_touch
    )
    fails += check_wall_intersection(poly, p1, p2, edges, degenerate)
    fails += check_metamorphic(poly, p1, p2, pts, degenerate, which)
    return fails, nontrivial, degenerate, edges


# --------------------------------------------------------------------------------------
# shards
# --------------------------------------------------------------------------------------
def lattice_points(k):
    return [(i, j) for i in range(k + 1) for j in range(k + 1)]


def shard_lattice(k, idx, nshards, assert_touch=True, full=True):
    """full: every ordered vertex triple and all three metamorphic variants per case;
    otherwise one representative per cyclic rotation (both orientations kept) and one
    metamorphic variant per case, rotating."""
    res = ShardResult()
    pts = lattice_points(k)
    segs = [(a, b) for a in pts for b in pts if a != b]
    tris = [
        t
        for t in itertools.permutations(pts, 3)
        if xg.orient(xg.P(t[0]), xg.P(t[1]), xg.P(t[2])) != 0
        and (full or t[0] == min(t))
    ]
    seen_buckets = set()
    ncase = 0
    for si, (p1, p2) in enumerate(segs):
        if si % nshards != idx:
            continue
        for tri in tris:
            ncase += 1
            case = {"poly": [list(p) for p in tri], "p1": list(p1), "p2": list(p2)}
            which = (0, 1, 2) if full else (ncase % 3,)
            fails, nontrivial, degenerate, edges = check_case(
                case, True, assert_touch, which
            )
            res.evaluations += 1
            if nontrivial and not degenerate:
                res.nontrivial.add("L%d:%d:%s" % (k, si, hash(tri)))
                if len(res.samples) < 2 and si % 37 == 5:
                    res.sample(case)
            if degenerate:
                res.bump("lattice/degenerate(overlap)")
            else:
                kinds = sorted(set(kd for kd, _ in edges))
                res.bump("lattice/" + "+".join(kinds))
            sc = _slope_classes(tri, p1, p2)
            res.bump("slopeclass/" + sc)
            for b, d, lab in fails:
                if b not in seen_buckets:
                    seen_buckets.add(b)
                    res.failures.append((b, d, case, lab))
    return res


def _slope_classes(poly, p1, p2):
    seg = "R" if abs(p2[0] - p1[0]) > abs(p2[1] - p1[1]) else "Z"
    n = len(poly)
    ks = set()
    for i in range(n):
        a, b = poly[i], poly[(i + 1) % n]
        ks.add("a" if abs(a[0] - b[0]) > abs(a[1] - b[1]) else "b")
    return seg + ":" + "".join(sorted(ks))


def _coord():
    from hypothesis import strategies as st

    return st.one_of(
        st.floats(min_value=-10, max_value=10, allow_nan=False, allow_infinity=False, width=64),
        st.integers(-40, 40).map(lambda i: i / 4.0),
    )


def _point():
    from hypothesis import strategies as st

    return st.tuples(_coord(), _coord())


def case_strategy(min_v=3, max_v=8):
    from hypothesis import strategies as st

    def ok(c):
        poly = c["poly"]
        n = len(poly)
        if tuple(c["p1"]) == tuple(c["p2"]):
            return False
        for i in range(n):
            if tuple(poly[i]) == tuple(poly[(i + 1) % n]):
                return False
        return True

    return st.fixed_dictionaries(
        {
            "poly": st.lists(_point().map(list), min_size=min_v, max_size=max_v),
            "p1": _point().map(list),
            "p2": _point().map(list),
        }
    ).filter(ok)


def shard_reals(seed, n, idx=0):
    res = ShardResult()

    def check(case):
        fails, nontrivial, degenerate, edges = check_case(case, False, False)
        res.bump("reals/degenerate" if degenerate else "reals/decided")
        if nontrivial and not degenerate:
            res.bump("reals/decided-with-crossing")
        case["_nt"] = nontrivial and not degenerate
        return fails

    hyp_search(
        "C20",
        case_strategy(),
        check,
        seed=seed + 1000 * idx,
        max_examples=n,
        result=res,
        nontrivial=lambda c: c.pop("_nt", False),
    )
    return res


# ---- closest_approach ----------------------------------------------------------------
def check_closest(case):
    heq, _ = _hyp()
    p, a, b = tuple(case["p"]), tuple(case["a"]), tuple(case["b"])
    exact = math.sqrt(xg.point_seg_dist2(p, a, b))
    with numpy.errstate(all="ignore"):
        got = float(heq.closest_approach(list(map(float, p)), list(map(float, a)), list(map(float, b))))
    scale = 1.0 + max(abs(float(c)) for c in (*p, *a, *b))
    # conditioning: the foot point is computed with relative error ~eps*|p-a|/|b-a|
    ab = math.sqrt(float(xg.dot(xg.sub(xg.P(b), xg.P(a)), xg.sub(xg.P(b), xg.P(a)))))
    pa = math.sqrt(float(xg.dot(xg.sub(xg.P(p), xg.P(a)), xg.sub(xg.P(p), xg.P(a)))))
    tol = 1e-12 * scale * (1.0 + pa / ab)
    if not (abs(got - exact) <= tol):
        return [("C20/closest_approach/value", {"got": got, "exact": exact, "tol": tol}, {})]
    return []


def shard_closest_lattice(k, idx, nshards):
    res = ShardResult()
    pts = lattice_points(k)
    n = 0
    for a in pts:
        for b in pts:
            if a == b:
                continue
            n += 1
            if n % nshards != idx:
                continue
            for p in pts:
                case = {"p": list(p), "a": list(a), "b": list(b)}
                f = check_closest(case)
                res.evaluations += 1
                res.nontrivial.add("CL%d:%s" % (k, (p, a, b)))
                for bkt, d, lab in f:
                    if not any(x[0] == bkt for x in res.failures):
                        res.failures.append((bkt, d, case, lab))
    res.bump("closest/lattice", res.evaluations)
    return res


def shard_closest_reals(seed, n):
    from hypothesis import strategies as st

    res = ShardResult()
    strat = st.fixed_dictionaries(
        {"p": _point().map(list), "a": _point().map(list), "b": _point().map(list)}
    ).filter(
        lambda c: (c["a"][0] - c["b"][0]) ** 2 + (c["a"][1] - c["b"][1]) ** 2 >= 1e-12
    )

    def lab(c):
        p, a, b = c["p"], c["a"], c["b"]
        m = (b[0] - a[0], b[1] - a[1])
        t = (m[0] * (p[0] - a[0]) + m[1] * (p[1] - a[1])) / (m[0] ** 2 + m[1] ** 2)
        return ["closest/t<0" if t < 0 else "closest/t>1" if t > 1 else "closest/interior"]

    hyp_search("C20", strat, check_closest, seed=seed, max_examples=n, result=res, label=lab)
    return res


# ---- polygons.area / clockwise ---------------------------------------------------------
def check_area(case):
    _, polygons = _hyp()
    poly = [tuple(p) for p in case["poly"]]
    ex2 = xg.shoelace2(poly)  # positive = anticlockwise
    exact = -float(ex2) / 2.0  # hypnotoad: positive = clockwise
    got = polygons.area([tuple(map(float, p)) for p in poly])
    mag = sum(
        abs(float(poly[i][0]) * float(poly[(i + 1) % len(poly)][1]))
        + abs(float(poly[(i + 1) % len(poly)][0]) * float(poly[i][1]))
        for i in range(len(poly))
    ) + sum(abs(float(p[0]) * float(p[1])) for p in poly) * 2
    tol = 1e-13 * (1.0 + mag) * len(poly)
    fails = []
    if not abs(got - exact) <= tol:
        fails.append(("C20/polygons.area/value", {"got": got, "exact": exact, "tol": tol}, {}))
    cw = polygons.clockwise([tuple(map(float, p)) for p in poly])
    if abs(exact) > 10 * tol:
        if bool(cw) != (exact > 0):
            fails.append(("C20/polygons.clockwise/sign", {"got": bool(cw), "exact_area": exact}, {}))
        case["_nt"] = True
    else:
        case["_nt"] = False
    return fails


def shard_area(seed, n, k):
    from hypothesis import strategies as st

    res = ShardResult()
    # exhaustive: all triples and quadruples on the lattice
    pts = lattice_points(k)
    for m in (3, 4):
        for poly in itertools.permutations(pts, m):
            case = {"poly": [list(p) for p in poly]}
            f = check_area(case)
            res.evaluations += 1
            if case.pop("_nt"):
                res.nontrivial.add("A%s" % (poly,))
            for bkt, d, lab in f:
                if not any(x[0] == bkt for x in res.failures):
                    res.failures.append((bkt, d, case, lab))
        if k > 3 and m == 3:
            break
    res.bump("area/lattice", res.evaluations)
    strat = st.fixed_dictionaries(
        {"poly": st.lists(_point().map(list), min_size=3, max_size=40)}
    )
    hyp_search(
        "C20",
        strat,
        check_area,
        seed=seed,
        max_examples=n,
        result=res,
        nontrivial=lambda c: c.pop("_nt", False),
        label=lambda c: ["area/reals"],
    )
    return res


# ---- polygons.intersect ----------------------------------------------------------------
def exact_poly_intersect(P1, P2, closed1, closed2):
    """Returns True / False / None (degenerate)."""
    n1 = len(P1) if closed1 else len(P1) - 1
    n2 = len(P2) if closed2 else len(P2) - 1
    any_proper = False
    degenerate = False
    for i in range(n1):
        a, b = P1[i], P1[(i + 1) % len(P1)]
        for j in range(n2):
            c, d = P2[j], P2[(j + 1) % len(P2)]
            kind, pt, par = xg.seg_seg(a, b, c, d)
            r = xg.sub(xg.P(b), xg.P(a))
            s = xg.sub(xg.P(d), xg.P(c))
            det = abs(xg.cross(r, s))
            if kind == "proper":
                t, u = par
                m = Fraction(MARGIN)
                if det >= Fraction(1e-3) and m <= t <= 1 - m and m <= u <= 1 - m:
                    any_proper = True
                else:
                    degenerate = True
            elif kind in ("touch", "overlap"):
                degenerate = True
            else:
                # disjoint: make sure floating point cannot see a crossing
                if par is not None:
                    t, u = par
                    m = Fraction(MARGIN)
                    inside_t = -m <= t <= 1 + m
                    inside_u = -m <= u <= 1 + m
                    if inside_t and inside_u:
                        degenerate = True
                    if det != 0 and det < Fraction(1e-3) and (0 < t < 1) and (0 < u < 1):
                        degenerate = True
    if any_proper:
        return True
    if degenerate:
        return None
    return False


def check_polyint(case):
    _, polygons = _hyp()
    P1 = [tuple(p) for p in case["P1"]]
    P2 = [tuple(p) for p in case["P2"]]
    c1, c2 = case["closed1"], case["closed2"]
    exp = exact_poly_intersect(P1, P2, c1, c2)
    case["_nt"] = exp is True
    case["_nt2"] = exp is True
    case["_deg"] = exp is None
    r1 = [float(p[0]) for p in P1]
    z1 = [float(p[1]) for p in P1]
    r2 = [float(p[0]) for p in P2]
    z2 = [float(p[1]) for p in P2]
    got = bool(polygons.intersect(r1, z1, r2, z2, closed1=c1, closed2=c2))
    if exp is None:
        return []
    if got != exp:
        tag = "closed" if (c1 and c2) else "open"
        return [
            (
                "C20/polygons.intersect/%s/%s" % (tag, "missed" if exp else "spurious"),
                {"got": got, "expected": exp},
                {"closed1": c1, "closed2": c2},
            )
        ]
    return []


def shard_polyint(seed, n, closed_only):
    from hypothesis import strategies as st

    res = ShardResult()
    closed = st.just(True) if closed_only else st.booleans()
    lat = st.tuples(st.integers(0, 4), st.integers(0, 4))
    pt = st.one_of(_point(), lat)

    def ok(c):
        for P in (c["P1"], c["P2"]):
            for i in range(len(P)):
                if tuple(P[i]) == tuple(P[(i + 1) % len(P)]):
                    return False
        return True

    strat = st.fixed_dictionaries(
        {
            "P1": st.lists(pt.map(list), min_size=2, max_size=6),
            "P2": st.lists(pt.map(list), min_size=2, max_size=8),
            "closed1": closed,
            "closed2": closed,
        }
    ).filter(ok)

    def lab(c):
        tag = "closed" if (c["closed1"] and c["closed2"]) else "open"
        if c.pop("_deg", False):
            return ["polyint/%s/degenerate" % tag]
        return ["polyint/%s/%s" % (tag, "crossing" if c.pop("_nt2", False) else "disjoint")]

    hyp_search(
        "C20",
        strat,
        check_polyint,
        seed=seed,
        max_examples=n,
        result=res,
        label=lab,
        nontrivial=lambda c: c.pop("_nt", False),
    )
    return res


# --------------------------------------------------------------------------------------
def run(run):
    tier, seed = run.tier, run.seed
    k = 3 if tier == "quick" else 4
    nsh = 16 if tier == "quick" else 64
    jobs = []
    for i in range(nsh):
        jobs.append(
            ("shard_lattice", dict(k=k, idx=i, nshards=nsh, full=(tier != "quick")))
        )
    nreal = 1500 if tier == "quick" else 20000
    for i in range(4 if tier == "quick" else 16):
        jobs.append(("shard_reals", dict(seed=seed, n=nreal, idx=i)))
    for i in range(4):
        jobs.append(("shard_closest_lattice", dict(k=k, idx=i, nshards=4)))
    jobs.append(("shard_closest_reals", dict(seed=seed, n=3000 if tier == "quick" else 50000)))
    jobs.append(("shard_area", dict(seed=seed, n=2000 if tier == "quick" else 30000, k=k)))
    npi = 3000 if tier == "quick" else 40000
    jobs.append(("shard_polyint", dict(seed=seed, n=npi, closed_only=True)))
    jobs.append(("shard_polyint", dict(seed=seed + 1, n=npi, closed_only=False)))
    # group by function for run_shards
    results = []
    from ..unitlab import _shard_entry  # noqa: F401
    import multiprocessing

    ctx = multiprocessing.get_context("fork")
    with ctx.Pool(16, maxtasksperchild=1) as pool:
        outs = pool.map(_shard_entry, [("vf.props.c20", fn, kw) for fn, kw in jobs], chunksize=1)
    from ..unitlab import HarnessError

    for status, payload in outs:
        if status != "ok":
            raise HarnessError(payload)
        results.append(payload)
    for r in results:
        run.merge_shard(r)
    run.rule = RULE
    run.extra["exhaustive"] = True
    run.extra["exhaustive_scope"] = (
        "lattice stratum only: {0..%d}^2, all ordered segments x all ordered non-collinear "
        "vertex triples (quick: one per cyclic rotation, both orientations); closest_approach on all (p,a,b) lattice triples; area on all ordered "
        "3- (and for k=3 4-) vertex lattice polygons" % k
    )
    run.extra["bounds"] = {"lattice_k": k, "reals_range": [-10, 10], "polyline_vertices": [3, 8]}
    run.assumptions = [
        "segment end points distinct and consecutive wall vertices distinct (zero-length "
        "edges divide by zero in find_intersections; no caller produces them)",
        "collinear overlap of segment and wall edge is degenerate: counted, not asserted",
        "touching configurations (end point of one on the other) are asserted on the lattice "
        "only, where coordinates are exact; on real coordinates they are ambiguous",
        "wallIntersection with >= 2 distinct exact crossing points may raise or return one of them",
    ]


def replay(run, payload):
    case = payload["case"]
    bucket = payload["bucket"]
    if "closest_approach" in bucket:
        fails = check_closest(case)
    elif "polygons.area" in bucket or "polygons.clockwise" in bucket:
        fails = check_area(case)
    elif "polygons.intersect" in bucket:
        fails = check_polyint(case)
    else:
        lattice = all(float(c).is_integer() for p in case["poly"] + [case["p1"], case["p2"]] for c in p)
        fails, _, _, _ = check_case(case, lattice, lattice)
    for b, d, lab in fails:
        run.failure(b, d, case, lab)
