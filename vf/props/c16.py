"""C16 - equivariance under reflection and field reversal of the equilibrium."""

import copy

import numpy

from .. import corpus, gridlab
from .c13 import compare_grids

LEVEL = "exploration"
RULE = (
    "derived descriptor pairs from Hypothesis-generated base cases of the Gaussian-sum family: (i) mirror "
    "image in the midplane (blob centres, wall, lower/upper options exchanged; lsn<->usn, ldn<->udn, "
    "cdn<->cdn), compared region by region with the y order reversed; (ii) up-down symmetric connected "
    "double null against its own mirror image; (iii) psi -> -psi by negating the arrays vs "
    "reverse_current=True, fpol -> -fpol vs reverse_Bt=True, arrays divided by 2 pi vs "
    "psi_divide_twopi=True, each also against the unreversed case. non-trivial = both members of a pair "
    "generated; distinct = base descriptor hash x relation."
)


def swap_lu(s):
    return s.replace("lower", "\0").replace("upper", "lower").replace("\0", "upper")


def mirror_desc(d):
    m = copy.deepcopy(d)
    eq = m["eq"]
    eq["topology"] = {"lsn": "usn", "usn": "lsn", "ldn": "udn", "udn": "ldn", "cdn": "cdn", "udn2": "ldn2", "ldn2": "udn2"}[eq["topology"]]
    if "jitter" in eq:
        eq["jitter"] = dict(eq["jitter"])
        eq["jitter"]["zc"] = -eq["jitter"].get("zc", 0.0)
    w = eq.get("wall", {"kind": "rect"})
    w = dict(w)
    if w.get("kind") == "chamfer":
        c = w.get("cut", [0.1] * 4)
        w["cut"] = [c[3], c[2], c[1], c[0]]
    # a 'tilt' wall (bottom edge rising by 2h to the right, top edge falling by 2h) is its own mirror
    # image in the midplane: the tilt is *not* negated
    eq["wall"] = w
    m["options"] = {swap_lu(k): v for k, v in d["options"].items()}
    return m


def base_cases(tier, seed):
    from hypothesis import strategies as st

    @st.composite
    def build(draw):
        top = draw(st.sampled_from(["lsn", "usn", "ldn", "udn", "cdn"]))
        eq = {"topology": top, "sign": draw(st.sampled_from([1.0, -1.0])), "A": draw(st.sampled_from([1.0, 3.0])), "nR": 65, "nZ": 65,
              "fpol": [draw(st.sampled_from([2.0, -1.5])), 0.1, -0.03, 0.0], "pres": [900.0, -0.4, 0.0, 0.0]}
        if draw(st.booleans()):
            eq["jitter"] = {"r0": 1.0, "wR": round(draw(st.floats(0.95, 1.05)), 3), "wZ": 1.0, "sep": round(draw(st.floats(0.96, 1.04)), 3),
                            "zc": round(draw(st.floats(-0.02, 0.02)), 3)}
        if top in ("ldn", "udn"):
            eq["delta"] = draw(st.sampled_from([0.004, 0.008]))
        kind = draw(st.sampled_from(["rect", "chamfer", "tilt"]))
        w = {"kind": kind, "clockwise": draw(st.booleans())}
        if kind == "chamfer":
            w["cut"] = [round(draw(st.floats(0.05, 0.15)), 3) for _ in range(4)]
        if kind == "tilt":
            w["tilt"] = round(draw(st.floats(-0.1, 0.1)), 3)
        eq["wall"] = w
        orth = draw(st.sampled_from([True, True, False]))
        o = {"orthogonal": orth, "finecontour_Nfine": 60, "y_boundary_guards": draw(st.sampled_from([0, 1])),
             "nx_core": draw(st.integers(1, 3)), "nx_sol": draw(st.integers(1, 3)),
             "psinorm_core": 0.88, "psinorm_sol": 1.12, "psinorm_pf": 0.9,
             "psi_interpolation_method": draw(st.sampled_from(["spline", "spline", "dct"]))}
        if top in ("lsn", "usn"):
            o.update(ny_inner_divertor=draw(st.integers(3, 6)), ny_outer_divertor=draw(st.integers(3, 6)), ny_sol=draw(st.integers(4, 8)))
        else:
            for k in ("ny_inner_lower_divertor", "ny_inner_upper_divertor", "ny_outer_lower_divertor", "ny_outer_upper_divertor"):
                o[k] = draw(st.integers(3, 5))
            o["ny_inner_sol"] = draw(st.integers(3, 5))
            o["ny_outer_sol"] = draw(st.integers(3, 5))
            if top in ("ldn", "udn"):
                o["nx_inter_sep"] = 1
        # per-divertor private-flux limits ("mirrored per-leg settings"): a single null reads only the one
        # of its own X-point, so they always differ there and the tighter one is usually the smallest
        # radial spacing at the separatrix (it then sets dpsidi_sep for every segment)
        if top in ("lsn", "usn") or draw(st.booleans()):
            lo, up = draw(st.sampled_from([(0.92, 0.88), (0.88, 0.92), (0.95, 0.9), (0.9, 0.95)]))
            o["psinorm_pf_lower"] = lo
            o["psinorm_pf_upper"] = up
        return {"family": "G", "entry": "api", "eq": eq, "options": o}

    n = 6 if tier == "quick" else 48
    if tier == "quick":
        # six cases: every topology once, the sixth another single null; spline interpolation for the
        # first of each class so that the reversal relations have their members
        return corpus.collect(build(), n, seed + 1600, keyfn=lambda d: d["eq"]["topology"], oversample=12)
    return corpus.collect(build(), n, seed + 1600, keyfn=lambda d: "%s/%s" % (d["eq"]["topology"], d["options"]["orthogonal"]))


EVEN = ["psixy", "hy", "Bxy", "g11", "g22", "g33", "g_11", "g_22", "g_33"]
ABS = ["Bpxy", "Btxy", "J", "g23", "g_23", "g12", "g_12", "dphidy"]


def compare_mirror(a, b):
    """a: grid case, b: grid of the mirrored descriptor. Returns (fails, max position distance/tol)."""
    fails = []
    sa, sb = a.side, b.side
    nf = float(sa["mesh_options"].get("finecontour_Nfine", 100))
    atol = float(sa["mesh_options"].get("refine_atol", 2e-8))
    names_b = {r["name"]: rid for rid, r in sb["regions"].items()}
    worst = 0.0
    for rid, ra in sa["regions"].items():
        nb = swap_lu(ra["name"])
        if nb not in names_b:
            fails.append(("C16/mirror/region-missing", {"region": ra["name"], "expected_in_mirror": nb}, {}))
            continue
        rb = sb["regions"][names_b[nb]]
        fa, fb = ra["fields"], rb["fields"]
        if fa["Rxy"]["centre"].shape != fb["Rxy"]["centre"].shape:
            fails.append(("C16/mirror/region-shape", {"region": ra["name"], "a": list(fa["Rxy"]["centre"].shape), "b": list(fb["Rxy"]["centre"].shape)}, {}))
            continue
        length = float(numpy.sum(fa["hy"]["centre"][0]) * a.nc["dy"][0, 0])
        tol = 20.0 * (atol * 10 + 4e-8 + (length / nf) ** 2)
        for loc in ("centre", "xlow", "ylow", "corners"):
            Ra, Za = fa["Rxy"][loc], fa["Zxy"][loc]
            Rb, Zb = fb["Rxy"][loc][:, ::-1], -fb["Zxy"][loc][:, ::-1]
            dist = numpy.hypot(Ra - Rb, Za - Zb)
            worst = max(worst, float(dist.max()) / tol)
            if dist.max() > tol:
                i, j = numpy.unravel_index(int(numpy.argmax(dist)), dist.shape)
                fails.append(
                    ("C16/mirror/positions/%s" % loc, {"region": ra["name"], "ix": int(i), "iy": int(j), "distance": float(dist.max()), "tol": tol}, {})
                )
                break
        # scalar fields: equal (even) or equal in magnitude, at centres
        for name in EVEN + ABS:
            if name not in fa or name not in fb or "centre" not in fa[name]:
                continue
            va, vb = fa[name]["centre"], fb[name]["centre"][:, ::-1]
            if name in ABS:
                va, vb = numpy.abs(va), numpy.abs(vb)
            sc = numpy.abs(va).max() + 1e-300
            # values move with the position tolerance: relative tolerance from the relative
            # variation over a cell
            grad_rel = 0.0
            if va.shape[1] > 1:
                grad_rel = float(numpy.abs(numpy.diff(va, axis=1)).max() / sc)
            rtol = 1e-6 + 50.0 * grad_rel * tol / max(length / max(va.shape[1], 1), 1e-300)
            e = float(numpy.abs(va - vb).max() / sc)
            if e > rtol:
                fails.append(("C16/mirror/field/%s" % name, {"region": ra["name"], "max_rel_diff": e, "tol": rtol}, {}))
    # topology integers
    ta = {k: int(a.nc[k]) for k in ("ixseps1", "ixseps2", "nx", "ny")}
    tb = {k: int(b.nc[k]) for k in ("ixseps1", "ixseps2", "nx", "ny")}
    if ta["nx"] != tb["nx"] or ta["ny"] != tb["ny"]:
        fails.append(("C16/mirror/size", {"a": ta, "b": tb}, {}))
    if len(sa["psi_sep"]) == 2 and sa.get("double_null_type") in ("lower", "upper"):
        if not (ta["ixseps1"] == tb["ixseps2"] and ta["ixseps2"] == tb["ixseps1"]):
            fails.append(("C16/mirror/ixseps-not-exchanged", {"a": ta, "b": tb}, {}))
    seen = set()
    out = []
    for f in fails:
        if f[0] not in seen:
            seen.add(f[0])
            out.append(f)
    return out, worst


NEGATED_BY_CURRENT = ["psixy", "dx", "Brxy", "Bzxy", "Bpxy"]
NEGATED_BY_BT = ["Btxy", "zShift", "dphidy", "g23", "g_23", "ShiftTorsion"]


def relation_fails(base, other, kind):
    """kind in current/bt/twopi: `other` is the case with reversed inputs; compare with the base."""
    fails = []
    nb, no = base.nc, other.nc
    tol = 1e-5
    for loc in ("", "_xlow", "_ylow"):
        d = numpy.hypot(nb["Rxy" + loc] - no["Rxy" + loc], nb["Zxy" + loc] - no["Zxy" + loc])
        if kind == "bt":
            if not (numpy.array_equal(nb["Rxy" + loc], no["Rxy" + loc]) and numpy.array_equal(nb["Zxy" + loc], no["Zxy" + loc])):
                fails.append(("C16/reverse_Bt/positions-not-identical" + loc, {"max_distance": float(d.max())}, {}))
        elif d.max() > tol:
            fails.append(("C16/%s/positions-moved%s" % (kind, loc), {"max_distance": float(d.max()), "tol": tol}, {}))
    neg = NEGATED_BY_CURRENT if kind == "current" else NEGATED_BY_BT if kind == "bt" else []
    scale = 2 * numpy.pi if kind == "twopi" else 1.0
    for name in ["psixy", "dx", "Brxy", "Bzxy", "Bpxy", "Btxy", "Bxy", "hy", "zShift", "dphidy", "g11", "g22", "g33", "g23", "g_11", "g_22", "g_33", "g_23"]:
        a, b = nb[name], no[name]
        if kind == "twopi":
            if name in ("psixy", "dx", "Brxy", "Bzxy", "Bpxy"):
                a = a / scale
            else:
                continue
        elif name in neg:
            a = -a
        elif kind == "current" and name in ("dphidy", "zShift", "g23", "g_23", "Btxy"):
            # the poloidal field direction flips: quantities odd in Bp*Bt change sign too,
            # Bt itself does not
            if name == "Btxy":
                pass
            elif name == "zShift":
                pass
            else:
                a = numpy.abs(a)
                b = numpy.abs(b)
        sc = numpy.abs(a).max() + 1e-300
        e = float(numpy.abs(a - b).max() / sc)
        lim = 1e-12 if kind == "bt" else 2e-4
        if e > lim:
            fails.append(("C16/%s/field/%s" % ({"current": "reverse_current", "bt": "reverse_Bt", "twopi": "psi_divide_twopi"}[kind], name), {"max_rel_diff": e, "tol": lim}, {}))
    if kind in ("current", "bt"):
        # curvature: reversing a field direction may only change signs, so magnitudes agree at all
        # three locations (this involves d(fpol)/dpsi, whose sign convention depends on the direction
        # of psi)
        for comp in "xyz":
            for stem in ("bxcv", "curl_bOverB_"):
                for loc in ("", "_xlow", "_ylow"):
                    name = stem + comp + loc
                    if name not in nb or name not in no:
                        continue
                    a, b = numpy.abs(nb[name]), numpy.abs(no[name])
                    ok = numpy.isfinite(a) & numpy.isfinite(b)
                    if not ok.any():
                        continue
                    sc = a[ok].max() + 1e-300
                    e = float(numpy.abs(a - b)[ok].max() / sc)
                    lim = 1e-10 if kind == "bt" else 2e-3
                    if e > lim:
                        fails.append(("C16/%s/curvature-magnitude/%s" % ({"current": "reverse_current", "bt": "reverse_Bt"}[kind], stem + comp), {"variable": name, "max_rel_diff": e, "tol": lim}, {}))
    return fails


def run(run):
    base = base_cases(run.tier, run.seed)
    descs = []
    plan = []
    for d in base:
        i0 = len(descs)
        descs.append(d)
        descs.append(mirror_desc(d))
        plan.append(("mirror", i0, i0 + 1))
    # reversal relations on orthogonal spline cases
    # one per topology class first (single null, connected, disconnected double null): the
    # radial-grid code differs between them
    spl = [d for d in base if d["options"].get("psi_interpolation_method", "spline") == "spline"]
    cls = lambda d: {"lsn": "single", "usn": "single", "cdn": "connected"}.get(d["eq"]["topology"], "disconnected")  # noqa: E731
    rev = []
    for want in ("single", "connected", "disconnected"):
        rev += [d for d in spl if cls(d) == want][:1]
    rev += [d for d in spl if d not in rev]
    rev = rev[: (3 if run.tier == "quick" else 16)]
    for d in rev:
        i0 = len(descs)
        descs.append(d)
        neg = copy.deepcopy(d)
        neg["eq"]["sign"] = -d["eq"]["sign"]
        descs.append(neg)  # arrays negated by the harness
        rc = copy.deepcopy(d)
        rc["options"]["reverse_current"] = True
        descs.append(rc)  # option on the original arrays
        nbt = copy.deepcopy(d)
        nbt["eq"]["fpol"] = [-d["eq"]["fpol"][0]] + list(d["eq"]["fpol"][1:])
        descs.append(nbt)
        rbt = copy.deepcopy(d)
        rbt["options"]["reverse_Bt"] = True
        descs.append(rbt)
        plan.append(("reversal", i0, i0 + 1, i0 + 2, i0 + 3, i0 + 4))
    cases = gridlab.run_cases(descs, timeout=400 if run.tier == "quick" else 1200)
    worst = 0.0
    for p in plan:
        if p[0] == "mirror":
            a, b = cases[p[1]], cases[p[2]]
            top = a.desc["eq"]["topology"]
            run.bump("mirror/%s/%s,%s" % (top, a.outcome, b.outcome))
            ok = a.outcome == "grid" and b.outcome == "grid"
            run.count(a.desc, nontrivial=ok, key="mirror:" + gridlab.desc_id(a.desc))
            if ok:
                if len(run.samples) < 4:
                    run.sample({"relation": "mirror", "base": a.desc})
                fails, w = compare_mirror(a, b)
                worst = max(worst, w)
                for bkt, det, lab in fails:
                    run.failure(bkt, det, {"desc": a.desc, "mirror": b.desc}, {"topology": top})
            elif "timeout" not in (a.outcome, b.outcome) and a.outcome != b.outcome:
                run.failure(
                    "C16/mirror/outcome-differs",
                    {"base": a.outcome, "mirror": b.outcome, "base_msg": a.status.get("exc_msg", "")[:200], "mirror_msg": b.status.get("exc_msg", "")[:200]},
                    {"desc": a.desc, "mirror": b.desc},
                    {"topology": top},
                )
        else:
            b0, neg, rc, nbt, rbt = (cases[i] for i in p[1:])
            run.bump("reversal/%s" % ",".join(c.outcome for c in (b0, neg, rc, nbt, rbt)))
            okc = all(c.outcome == "grid" for c in (b0, neg, rc))
            okb = all(c.outcome == "grid" for c in (b0, nbt, rbt))
            run.count(b0.desc, nontrivial=okc or okb, key="rev:" + gridlab.desc_id(b0.desc))
            if okc:
                bad = compare_grids(neg.nc, rc.nc)
                if bad:
                    run.failure("C16/reverse_current/not-identical-to-negated-arrays", {"variables": bad[:20]}, {"desc": b0.desc}, {})
                for bkt, det, lab in relation_fails(b0, rc, "current"):
                    run.failure(bkt, det, {"desc": b0.desc}, {})
            if okb:
                bad = compare_grids(nbt.nc, rbt.nc)
                if bad:
                    run.failure("C16/reverse_Bt/not-identical-to-negated-fpol", {"variables": bad[:20]}, {"desc": b0.desc}, {})
                for bkt, det, lab in relation_fails(b0, rbt, "bt"):
                    run.failure(bkt, det, {"desc": b0.desc}, {})
    run.extra.setdefault("max_error_over_tolerance", {})["mirror-position"] = worst
    run.rule = RULE
    run.assumptions = [
        "mirror comparison is region by region (names with lower/upper exchanged) with the y index reversed; position "
        "tolerance 20 x (10 refine_atol + 4e-8 + (L/Nfine)^2) because the two runs traverse each contour in opposite directions",
        "fields compared at cell centres: equal (psixy, hy, Bxy, diagonal metric) or equal in magnitude; under "
        "reverse_current / reverse_Bt also the magnitudes of bxcv* and curl_bOverB_* at all three locations "
        "(2e-3 of the maximum for reverse_current, whose positions agree to 1e-5 only)",
        "reverse_current / reverse_Bt on the original arrays must be bit-identical to running on arrays negated by the "
        "caller; against the unreversed case positions agree to 1e-5 (reverse_current) / exactly (reverse_Bt)",
    ]


def replay(run, payload):
    print("replay: re-run the check (pairs are compared); base descriptor in the replay file")
