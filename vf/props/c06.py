"""C06 - zShift, ShiftAngle, dphidy and ShiftTorsion follow the field lines."""

import numpy

from .. import boutmodel as bm
from .. import corpus, gridcheck, surftrace

LEVEL = "exploration"
RULE = (
    "members of the shared gridlab corpus with non-zero toroidal field (all topologies reached, "
    "periodic core, legs, PFR; circular with one and two q coefficients): the harness integrates "
    "nu = Bt/(R|Bp|) along the reference flux surface between consecutive grid points of every surface "
    "(DOP853, rtol 1e-11) and compares with the increments of zShift along each chain of y-connected "
    "regions, the chain origin, continuity at joins, ShiftAngle, dphidy and ShiftTorsion. non-trivial = "
    "Bt != 0 and (>= 2 regions chained in y or a periodic core); distinct = descriptor hash."
)


def check(case):
    nc, side = case.nc, case.side
    has_bt = bool(numpy.any(nc["Btxy"] != 0.0))
    fails = []
    margins = {}
    hist = []

    def fail(bucket, detail, labels=None):
        if not any(x[0] == bucket for x in fails):
            fails.append((bucket, detail, dict(labels or {}, guard_cell=gridcheck.in_guard_cells(side, detail), family=case.desc["family"])))

    def margin(name, v):
        if numpy.isfinite(v):
            margins[name] = max(margins.get(name, 0.0), float(v))

    # dphidy == hy*Btxy/(Bpxy*Rxy) at all locations
    for sfx in ("", "_xlow", "_ylow"):
        want = nc["hy" + sfx] * nc["Btxy" + sfx] / (nc["Bpxy" + sfx] * nc["Rxy" + sfx])
        got = nc["dphidy" + sfx]
        sc = numpy.abs(want).max() + 1e-300
        e = numpy.abs(got - want).max() / sc
        margin("dphidy", e / 1e-12)
        if e > 1e-12:
            fail("C06/dphidy" + sfx, {"max_rel_err": float(e)})
    # ShiftTorsion = centred x-derivative of dphidy, recomputed per region from the region arrays
    for rid, reg in side["regions"].items():
        f = reg["fields"]
        pv = reg["psi_vals"]
        dxc = (pv[2::2] - pv[:-2:2])[:, None]
        d = f["dphidy"]
        st = f["ShiftTorsion"]
        want_c = (d["xlow"][1:] - d["xlow"][:-1]) / dxc
        want_y = (d["corners"][1:] - d["corners"][:-1]) / dxc
        for loc, want in (("centre", want_c), ("ylow", want_y)):
            got = st[loc]
            sc = numpy.abs(want).max() + 1e-300
            e = numpy.abs(got - want).max() / sc
            margin("ShiftTorsion-" + loc, e / 1e-10)
            if not e <= 1e-10:
                fail("C06/ShiftTorsion-" + loc, {"region": reg["name"], "max_rel_err": float(e)})
        if "xlow" in st:
            got = st["xlow"]
            if not numpy.all(numpy.isfinite(got)):
                fail(
                    "C06/ShiftTorsion-xlow-not-finite",
                    {"region": reg["name"], "n_nonfinite": int((~numpy.isfinite(got)).sum()), "dx_xlow_max": float(numpy.abs(f["dx"].get("xlow", numpy.zeros(1))).max())},
                )
            elif got.shape[0] >= 3:
                # interior x faces: difference of the adjacent cell centres over the distance
                # between them in x (= psi)
                xc = pv[1::2]
                want = (d["centre"][1:] - d["centre"][:-1]) / (xc[1:] - xc[:-1])[:, None]
                sc = numpy.abs(want).max() + 1e-300
                e = numpy.abs(got[1:-1] - want).max() / sc
                margin("ShiftTorsion-xlow", e / 1e-10)
                if not e <= 1e-10:
                    fail("C06/ShiftTorsion-xlow", {"region": reg["name"], "max_rel_err": float(e)})
    if not has_bt:
        return {"fails": fails, "nontrivial": False, "margins": margins, "hist": ["Bt=0"]}
    tr = surftrace.traces_for(case)
    conn = side["connections"]
    g = int(side["mesh_options"].get("y_boundary_guards", 0))
    chains = surftrace.chain_order(side)
    multi = any(len(c) > 1 for c, _ in chains)
    any_periodic = any(p for _, p in chains)
    for chain, periodic in chains:
        for rowkind, (faceloc, midloc) in {"centre": ("ylow", "centre"), "xlow": ("corners", "xlow")}.items():
            first = side["regions"][chain[0]]
            z0 = first["fields"]["zShift"]
            g0 = g if (first["kind"].startswith("wall") and not periodic) else 0
            if faceloc in z0 and numpy.abs(z0[faceloc][:, g0]).max() > 1e-9:
                fail(
                    "C06/zShift-origin/%s" % ("closed" if periodic else "open"),
                    {"region": first["name"], "value_at_origin_face": float(numpy.abs(z0[faceloc][:, g0]).max())},
                )
            prev_last = None
            tot = None
            tot_tol = None
            for rid in chain:
                reg = side["regions"][rid]
                zs = reg["fields"]["zShift"]
                if faceloc not in zs or midloc not in zs:
                    continue
                A = tr[rid]["rows"][rowkind]
                h = tr[rid]["h"]
                nrow, ny = zs[midloc].shape
                seq = numpy.empty((nrow, 2 * ny + 1))
                seq[:, 0::2] = zs[faceloc]
                seq[:, 1::2] = zs[midloc]
                d = numpy.diff(seq, axis=1)
                if prev_last is not None:
                    j = numpy.abs(prev_last - seq[:, 0]).max()
                    # the two regions accumulate the same integral in different order: round-off
                    # relative to the size of zShift (hundreds of radians at small R)
                    # (1e-6: the next region starts from this region's last value plus the integral
                    # interpolated at the distance of its own first point, which differs from the start of
                    # its FineContour by the refinement tolerance - jumps of 1e-8 rad; a chain that loses a
                    # term jumps by the size of a cell's increment)
                    if j > 1e-6 * (1.0 + float(numpy.abs(seq).max())):
                        fail("C06/zShift-discontinuous-at-join", {"region": reg["name"], "max_jump": float(j)})
                prev_last = seq[:, -1]
                dirs = A["dir"]
                folded = ((dirs * numpy.sign(numpy.nansum(dirs, axis=1, keepdims=True)) < 0) & numpy.isfinite(dirs)).any(axis=1)
                want = numpy.abs(A["int_nu"]) * numpy.sign(numpy.nanmean(d))
                # trapezoid rule of spacing h on the FineContour + linear interpolation of the
                # cumulative integral between FineContour points (h^2 |nu'|/8), also from the
                # neighbouring half-cells (a FineContour segment can straddle two of them)
                te = numpy.nan_to_num(A["trap_err"])
                pad = numpy.pad(te, ((0, 0), (1, 1)))
                te = te + numpy.maximum(pad[:, :-2], pad[:, 2:])
                ie = h * h * numpy.nan_to_num(A["dnu"]) / 8.0
                padi = numpy.pad(ie, ((0, 0), (1, 1)))
                ie = numpy.maximum(ie, numpy.maximum(padi[:, :-2], padi[:, 2:]))
                # position uncertainty of the end points (misses, refinement) times nu
                nu_typ = numpy.abs(A["int_nu"]) / numpy.maximum(A["arc"], 1e-300)
                tol = 5.0 * (te + 2.0 * ie) + 4.0 * (A["miss"] + 1e-8) * nu_typ + 1e-9
                ok = numpy.isfinite(want) & ~folded[:, None]
                r = numpy.where(ok, numpy.abs(d - want) / tol, 0.0)
                # outermost boundary half-cell: see C05 known finding (0.25 h)
                edge = numpy.zeros(d.shape[1], dtype=bool)
                if conn[rid].get("lower") is None:
                    edge[0] = True
                if conn[rid].get("upper") is None:
                    edge[-1] = True
                soft = edge[None, :] & (r > 1.0) & (numpy.abs(d - want) <= 0.3 * h * nu_typ * 1.5)
                r = numpy.where(soft, 0.0, r)
                margin("zShift-increment", r.max())
                if r.max() > 1.0:
                    i, jj = numpy.unravel_index(int(numpy.argmax(r)), r.shape)
                    fail(
                        "C06/zShift-vs-field-line-integral",
                        {"region": reg["name"], "row": rowkind, "ix": int(i), "half_index": int(jj), "increment": float(d[i, jj]),
                         "integral": float(want[i, jj]), "tol": float(tol[i, jj])},
                    )
                if periodic:
                    s_int = numpy.nansum(numpy.abs(A["int_nu"]), axis=1)
                    s_tol = numpy.nansum(tol, axis=1)
                    tot = s_int if tot is None else tot + s_int
                    tot_tol = s_tol if tot_tol is None else tot_tol + s_tol
            if periodic and tot is not None:
                sa = side["regions"][chain[0]]["fields"].get("ShiftAngle")
                if sa is None or midloc not in sa:
                    fail("C06/ShiftAngle-missing", {"row": midloc})
                else:
                    got = numpy.abs(sa[midloc][:, 0])
                    r = numpy.abs(got - tot) / tot_tol
                    margin("ShiftAngle", numpy.nanmax(r))
                    if not numpy.nanmax(r) <= 1.0:
                        i = int(numpy.nanargmax(r))
                        fail("C06/ShiftAngle", {"row": midloc, "ix": i, "got": float(got[i]), "closed_integral": float(tot[i])})
    # ShiftAngle: NaN exactly on open surfaces (file)
    t = bm.topology_from_file(nc)
    sa = numpy.asarray(nc["ShiftAngle"])
    nxf = nc["Rxy"].shape[0]
    has_core = t["ixseps1"] > 0 and not (t["jyseps1_1"] < 0 and t["ixseps1"] < nxf) and bm.n_core_cells(t) > 0
    ix_in = min(t["ixseps1"], t["ixseps2"], nxf) if t["jyseps2_1"] != t["jyseps1_2"] else min(t["ixseps1"], nxf)
    for x in range(nxf):
        closed = has_core and x < ix_in
        if closed != bool(numpy.isfinite(sa[x])):
            fail("C06/ShiftAngle-nan-pattern", {"x": x, "value": float(sa[x]), "closed_surface": closed})
            break
    if case.desc["family"] == "C" and has_core:
        # circular: ShiftAngle = 2 pi q(r)
        cref = gridcheck.CaseRef(case.desc)
        r = cref.ref.r(nc["Rxy"][:, 0], nc["Zxy"][:, 0])
        want = 2 * numpy.pi * cref.ref.qf(r)
        e = numpy.abs(numpy.abs(sa) - want) / want
        hist.append("circular-q-coefficients/%d" % len(cref.ref.q))
        nf = float(side["mesh_options"].get("finecontour_Nfine", 100))
        ctol = 4.0 / nf**2 + 1e-6  # trapezoid rule on Nfine points round the surface
        margin("circular-ShiftAngle-2piq", e.max() / ctol)
        if not e.max() <= ctol:
            fail("C06/circular-ShiftAngle-vs-2piq", {"got": numpy.abs(sa).tolist(), "want": want.tolist()})
    hist.append("chains/%s%s" % ("multi-region" if multi else "single-region", "+periodic" if any_periodic else ""))
    return {"fails": fails, "nontrivial": bool(multi or any_periodic), "margins": margins, "hist": hist}


def run(run):
    descs = corpus.base_corpus(run.tier, run.seed)
    gridcheck.run_corpus_property(run, "vf.props.c06", "check", descs)
    run.rule = RULE
    run.assumptions = [
        "tolerance per half-cell: 5 x (trapezoid remainder at spacing L/Nfine estimated on the reference path + "
        "2 x h^2 |nu'|/8 for the linear interpolation of the cumulative integral) + end-point position uncertainty x nu + 1e-9",
        "zShift origin: y-face at index y_boundary_guards of the first region of an open chain; first y-face of the "
        "first region of a closed chain (where the single ShiftAngle jump sits)",
        "circular equilibrium: ShiftAngle = 2 pi q(r) (exact for this model) within 4/Nfine^2 + 1e-6 relative",
    ]


def replay(run, payload):
    gridcheck.replay_corpus_property(run, "vf.props.c06", "check", payload)
