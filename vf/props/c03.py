"""C03 - field and profile values at grid points agree with the equilibrium."""

import copy

import numpy

from .. import corpus, families, gridcheck

LEVEL = "exploration"
RULE = (
    "shared gridlab corpus plus derived descriptors with reverse_current / reverse_Bt / "
    "psi_divide_twopi and a disconnected-double-null stratum whose profile grid extends beyond "
    "both separatrices (so the private-flux reflection is observable); plus a Hypothesis unit "
    "stratum on TokamakEquilibrium(extrapolate_profiles=True). non-trivial = grid written with "
    "non-constant fpol or pressure profile; distinct = descriptor hash."
)


def _newton_ref(ref, R, Z, its=50):
    for _ in range(its):
        g = numpy.array([float(ref.dR(R, Z)), float(ref.dZ(R, Z))])
        H = numpy.array(
            [[float(ref.dRR(R, Z)), float(ref.dRZ(R, Z))], [float(ref.dRZ(R, Z)), float(ref.dZZ(R, Z))]]
        )
        step = numpy.linalg.solve(H, g)
        R, Z = R - step[0], Z - step[1]
        if numpy.hypot(*step) < 1e-14:
            break
    H = numpy.array(
        [[float(ref.dRR(R, Z)), float(ref.dRZ(R, Z))], [float(ref.dRZ(R, Z)), float(ref.dZZ(R, Z))]]
    )
    return R, Z, H


def check(case):
    nc, side = case.nc, case.side
    desc = case.desc
    cref = gridcheck.CaseRef(desc)
    ref = cref.ref
    fails = []
    margins = {}
    hist = []

    def fail(bucket, detail, labels=None):
        if not any(f[0] == bucket for f in fails):
            fails.append((bucket, detail, labels or {}))

    def margin(name, err, tol):
        margins[name] = max(margins.get(name, 0.0), float(err) / tol)

    # cap_Bp_ylow_xpoint is a documented 'fudge': Bpxy_ylow on the y-face next to an X-point is
    # raised to the smaller of the two neighbouring cell-centre values, deliberately leaving the
    # physical field there (and Bxy_ylow untouched). Those faces are exempt from the magnitude
    # clauses, but may only have been *raised*.
    capped = numpy.zeros(nc["Rxy_ylow"].shape, dtype=bool)
    if side["mesh_options"].get("cap_Bp_ylow_xpoint"):
        for rid, reg in side["regions"].items():
            if any(p is not None for p in reg["xp_start"]):
                (xs, xe), (ys, ye) = side["region_indices"][rid]
                capped[xs:xe, ys] = True
        hist.append("cap_Bp_ylow_xpoint/faces-exempt=%d" % int(capped.sum()))
    sign_votes = []
    for suffix in ("", "_xlow", "_ylow"):
        R, Z = nc["Rxy" + suffix], nc["Zxy" + suffix]
        ex = capped if suffix == "_ylow" else numpy.zeros(R.shape, dtype=bool)
        dR, dZ = ref.dR(R, Z), ref.dZ(R, Z)
        Br, Bz = dZ / R, -dR / R
        bscale = float(numpy.max(numpy.hypot(Br, Bz))) + 1e-300
        tol = 1e-9 * bscale
        e1 = numpy.abs(nc["Brxy" + suffix] - Br).max()
        e2 = numpy.abs(nc["Bzxy" + suffix] - Bz).max()
        margin("Br,Bz", max(e1, e2), tol)
        if e1 > tol:
            fail("C03/Brxy" + suffix, {"max_abs_err": float(e1), "tol": tol})
        if e2 > tol:
            fail("C03/Bzxy" + suffix, {"max_abs_err": float(e2), "tol": tol})
        Bp = nc["Bpxy" + suffix]
        d3 = numpy.abs(Bp) - numpy.hypot(nc["Brxy" + suffix], nc["Bzxy" + suffix])
        e3 = numpy.abs(numpy.where(ex, 0.0, d3)).max()
        if ex.any() and float(numpy.min(numpy.where(ex, d3, 0.0))) < -tol:
            fail("C03/Bpxy-capped-below-field" + suffix, {"min_diff": float(numpy.min(numpy.where(ex, d3, 0.0)))})
        margin("|Bp|", e3, tol)
        if e3 > tol:
            fail("C03/Bpxy-magnitude" + suffix, {"max_abs_err": float(e3), "tol": tol})
        sg = numpy.sign(Bp)
        sign_votes.append(sg)
        psi_here = ref.psi(R, Z)
        Bt = cref.fpol(psi_here) / R
        tscale = float(numpy.max(numpy.abs(Bt))) + 1e-300
        e4 = numpy.abs(nc["Btxy" + suffix] - Bt).max()
        tolt = 1e-9 * tscale if tscale > 1e-200 else 1e-300
        margin("Bt", e4, tolt)
        if e4 > tolt:
            i, j = numpy.unravel_index(int(numpy.argmax(numpy.abs(nc["Btxy" + suffix] - Bt))), Bt.shape)
            fail(
                "C03/Btxy" + suffix,
                {"max_abs_err": float(e4), "tol": tolt, "got": float(nc["Btxy" + suffix][i, j]), "want": float(Bt[i, j]), "psi": float(psi_here[i, j])},
            )
        e5 = numpy.where(ex, 0.0, numpy.abs(nc["Bxy" + suffix] - numpy.sqrt(nc["Bpxy" + suffix] ** 2 + nc["Btxy" + suffix] ** 2))).max()
        margin("B", e5, 1e-12 * (bscale + tscale))
        if e5 > 1e-12 * (bscale + tscale):
            fail("C03/Bxy" + suffix, {"max_abs_err": float(e5)})
    # one sign of Bpxy for the whole grid
    allsg = numpy.concatenate([s.ravel() for s in sign_votes])
    if not (numpy.all(allsg > 0) or numpy.all(allsg < 0)):
        fail("C03/Bpxy-sign-not-uniform", {"n_pos": int((allsg > 0).sum()), "n_neg": int((allsg < 0).sum())})
    else:
        # equal to the sign of Bp along increasing y (interior centres of every region)
        votes = []
        for rid, reg in side["regions"].items():
            f = reg["fields"]
            Rc, Zc = f["Rxy"]["centre"], f["Zxy"]["centre"]
            if Rc.shape[1] < 3:
                continue
            dRy = Rc[:, 2:] - Rc[:, :-2]
            dZy = Zc[:, 2:] - Zc[:, :-2]
            Rm, Zm = Rc[:, 1:-1], Zc[:, 1:-1]
            Brm, Bzm = ref.dZ(Rm, Zm) / Rm, -ref.dR(Rm, Zm) / Rm
            votes.append(numpy.sign(Brm * dRy + Bzm * dZy).ravel())
        votes = numpy.concatenate(votes)
        maj = 1.0 if (votes > 0).sum() >= (votes < 0).sum() else -1.0
        frac = float((votes == maj).mean())
        hist.append("Bp-direction-votes/%s" % ("unanimous" if frac == 1.0 else ">=90%" if frac >= 0.9 else "<90%"))
        if frac >= 0.9 and maj != numpy.sign(allsg[0]):
            fail("C03/Bpxy-sign-vs-y-direction", {"majority": maj, "Bpxy_sign": float(numpy.sign(allsg[0])), "agreement": frac})
    # ---- pressure ----------------------------------------------------------------------
    has_p = cref.inp is not None and cref.pressure1D is not None
    if has_p:
        if "pressure" not in nc:
            fail("C03/pressure-missing", {})
        else:
            psi_sep = side["psi_sep"]
            xpts = side["x_points"]
            psi_axis = side["psi_axis"]
            sgn = numpy.sign(psi_sep[0] - psi_axis)
            pscale = float(numpy.max(numpy.abs(cref.pressure1D)))
            tolp = 1e-8 * pscale
            for rid, reg in side["regions"].items():
                (xs, xe), (ys, ye) = side["region_indices"][rid]
                leg = "wall" in reg["kind"]
                psi_leg = None
                if leg:
                    xp = [p for p in list(reg["xp_start"]) + list(reg["xp_end"]) if p is not None]
                    if xp:
                        k = min(range(len(xpts)), key=lambda k: (xpts[k][0] - xp[0][0]) ** 2 + (xpts[k][1] - xp[0][1]) ** 2)
                        psi_leg = psi_sep[k]
                for suffix in ("", "_xlow", "_ylow"):
                    R = nc["Rxy" + suffix][xs:xe, ys:ye]
                    Z = nc["Zxy" + suffix][xs:xe, ys:ye]
                    p = ref.psi(R, Z)
                    if leg and psi_leg is not None:
                        want = cref.pressure(psi_leg + sgn * numpy.abs(p - psi_leg))
                    else:
                        want = cref.pressure(p)
                    got = nc["pressure" + suffix][xs:xe, ys:ye]
                    err = numpy.abs(got - want).max()
                    margin("pressure", err, tolp)
                    if err > tolp:
                        second = len(psi_sep) > 1 and psi_leg is not None and abs(psi_leg - psi_sep[0]) > 1e-12
                        fail(
                            "C03/pressure/%s%s" % ("leg-of-secondary-xpoint" if second else ("leg" if leg else "core-sol"), suffix),
                            {"region": reg["name"], "max_abs_err": float(err), "tol": tolp, "psi_leg": psi_leg, "psi_sep": psi_sep},
                        )
            if len(psi_sep) > 1 and abs(psi_sep[0] - psi_sep[1]) > 1e-9:
                hist.append("pressure/disconnected-reflection-observable=%s" % (desc["eq"].get("profile_extent", 1.3) > 1.0))
    # ---- scalars -------------------------------------------------------------------------
    if desc["family"] == "G":
        crit = cref.inp["crit"]
        # find_critical always uses its own spline of the (possibly transformed) array
        from .. import refeq

        sref = refeq.make_ref(cref.inp["R1D"], cref.inp["Z1D"], cref.psi2D, "spline")
        atol = float(side["eq_options"].get("xpoint_refine_atol", 1e-6))
        Ro, Zo, Ho = _newton_ref(sref, crit["o"][0], crit["o"][1])
        lam = numpy.min(numpy.abs(numpy.linalg.eigvalsh(Ho)))
        tol_o = 4.0 * (Ro**2) * atol / lam + 1e-12
        psi_o = float(sref.psi(Ro, Zo))
        margin("psi_axis", abs(nc["psi_axis"] - psi_o), tol_o)
        if abs(nc["psi_axis"] - psi_o) > tol_o:
            fail("C03/psi_axis", {"got": float(nc["psi_axis"]), "want": psi_o, "tol": tol_o})
        x0 = crit["x"][0]
        Rx, Zx, Hx = _newton_ref(sref, x0[0], x0[1])
        lamx = numpy.min(numpy.abs(numpy.linalg.eigvalsh(Hx)))
        tol_x = 4.0 * (Rx**2) * atol / lamx + 1e-12
        psi_x = float(sref.psi(Rx, Zx))
        # the primary X-point is the one nearest the axis in psi; for connected double nulls
        # either may be primary
        cands = [psi_x]
        for xx in crit["x"][1:]:
            r2, z2, _ = _newton_ref(sref, xx[0], xx[1])
            cands.append(float(sref.psi(r2, z2)))
        best = min(cands, key=lambda v: abs(v - psi_o))
        ok = any(abs(nc["psi_bdry"] - v) <= tol_x for v in cands if abs(abs(v - psi_o) - abs(best - psi_o)) <= 2 * tol_x)
        if not ok:
            fail("C03/psi_bdry", {"got": float(nc["psi_bdry"]), "want_one_of": cands, "tol": tol_x})
        f_axis = float(cref.fpol(numpy.array(psi_o)))
        bt_want = f_axis / Ro
        dR_o = 2.0 * Ro * numpy.sqrt(atol) / lam
        tol_bt = abs(bt_want) * dR_o / Ro + 1e-9 * abs(bt_want) + 1e-300
        margin("Bt_axis", abs(nc["Bt_axis"] - bt_want), tol_bt)
        if abs(nc["Bt_axis"] - bt_want) > tol_bt:
            fail("C03/Bt_axis", {"got": float(nc["Bt_axis"]), "want": bt_want, "tol": tol_bt})
    nontrivial = desc["family"] != "G" or ("fpol" in desc["eq"] and any(desc["eq"]["fpol"][1:])) or "pres" in desc["eq"]
    o = desc.get("options", {})
    for k in ("reverse_current", "reverse_Bt", "psi_divide_twopi"):
        if o.get(k):
            hist.append("option/" + k)
    return {"fails": fails, "nontrivial": bool(nontrivial), "margins": margins, "hist": hist}


def derived(base, tier, seed):
    """Sign/scale option variants and the reflection-observable stratum."""
    out = []
    g = [d for d in base if d["family"] == "G" and d["options"].get("orthogonal", True)]
    n = 3 if tier == "quick" else 24
    opts = ["reverse_current", "reverse_Bt", "psi_divide_twopi"]
    for i, d in enumerate(g[:n]):
        v = copy.deepcopy(d)
        v["options"][opts[i % 3]] = True
        if i % 4 == 3:
            v["options"][opts[(i + 1) % 3]] = True
        v["eq"].setdefault("fpol", [1.7, 0.1, -0.04, 0.01])
        out.append(v)
    # disconnected double nulls with a profile that keeps varying beyond both separatrices
    for i, top in enumerate(["ldn", "udn", "udn2", "ldn2"][: (2 if tier == "quick" else 4)]):
        for sign in ([1.0] if tier == "quick" else [1.0, -1.0]):
            out.append(
                {
                    "family": "G",
                    "entry": "api",
                    "eq": {
                        "topology": top,
                        "sign": sign,
                        "nR": 65,
                        "nZ": 65,
                        "fpol": [2.1, 0.1, -0.05, 0.02],
                        "pres": [900.0, -0.45, 0.03, 0.01],
                        "profile_extent": 1.5,
                        "delta": 0.005 if top in ("ldn", "udn") else None,
                        "wall": {"kind": "rect"},
                    },
                    "options": {
                        "orthogonal": True,
                        "finecontour_Nfine": 50,
                        "nx_core": 2,
                        "nx_sol": 2,
                        "nx_inter_sep": 1,
                        "ny_inner_lower_divertor": 3,
                        "ny_inner_upper_divertor": 3,
                        "ny_outer_lower_divertor": 3,
                        "ny_outer_upper_divertor": 3,
                        "ny_inner_sol": 4,
                        "ny_outer_sol": 4,
                        "psinorm_core": 0.9,
                        "psinorm_sol": 1.2,
                        "psinorm_pf": 0.9,
                        "y_boundary_guards": 1,
                    },
                }
            )
    for d in out:
        if d["eq"].get("delta", 0) is None:
            d["eq"].pop("delta")
    return out


# ---- unit stratum: extrapolated profiles are continuous ---------------------------------
def check_extrapolate(c):
    import warnings

    from hypnotoad.cases import tokamak

    from ..unitlab import quiet_stdio

    eqd = {"topology": c["topology"], "sign": c["sign"], "A": c["A"], "nR": 49, "nZ": 49,
           "fpol": c["fpol"], "pres": c["pres"], "profile_extent": 1.0, "nf": c["nf"]}
    inp = families.g_inputs(eqd)
    psi_o, psi_x = inp["crit"]["o"][2], inp["crit"]["x"][0][2]
    psi_sol = psi_o + c["psinorm_sol"] * (psi_x - psi_o)
    opts = {"extrapolate_profiles": True, "psi_sol": psi_sol, "psi_sol_inner": psi_sol}
    with quiet_stdio(), warnings.catch_warnings():
        warnings.simplefilter("ignore")
        try:
            eq = tokamak.TokamakEquilibrium(
                inp["R1D"].copy(), inp["Z1D"].copy(), inp["psi2D"].copy(), inp["psi1D"].copy(),
                inp["fpol1D"].copy(), pressure=inp["pressure"].copy(), wall=list(inp["wall"]),
                make_regions=False, settings=opts,
            )
        except Exception as e:  # noqa: BLE001
            return [("C03/extrapolate/raised", {"exc": repr(e)[:300]}, {})]
    pb = float(inp["psi1D"][-1])
    p0 = float(inp["pressure"][-1])
    fails = []
    # documented form (code comment and option doc): exponential decay from the edge value
    # with the edge gradient: p = p0 exp((psi - psi0) dpdpsi / p0), sampled on
    # linspace(psi0, psi_outer, 50)[1:]
    dpdpsi = (inp["pressure"][-1] - inp["pressure"][-2]) / (inp["psi1D"][-1] - inp["psi1D"][-2])
    beyond = (psi_sol - pb) * numpy.sign(psi_x - psi_o) > 0
    c["_beyond"] = bool(beyond)
    if beyond:
        knots = numpy.linspace(pb, psi_sol, 50)[1:]
        for k in (0, 1, 10, 30, 48):
            want = p0 * numpy.exp((knots[k] - pb) * dpdpsi / p0)
            got = float(eq.pressure(knots[k]))
            if abs(got - want) > 1e-8 * abs(p0):
                fails.append(
                    (
                        "C03/extrapolate/pressure-not-exponential-from-edge",
                        {"psi": float(knots[k]), "got": got, "want": float(want), "p0": p0, "psi_edge": pb},
                        {},
                    )
                )
                break
        mid = float(eq.pressure(0.5 * (pb + psi_sol)))
        end = float(eq.pressure(psi_sol))
        if dpdpsi * numpy.sign(psi_x - psi_o) < 0 and not (abs(end) <= abs(mid) * (1 + 1e-9) <= abs(p0) * (1 + 1e-6)):
            fails.append(("C03/extrapolate/not-decaying", {"p0": p0, "mid": mid, "end": end}, {}))
    edge = float(eq.pressure(pb))
    if abs(edge - p0) > 1e-9 * abs(p0):
        fails.append(("C03/extrapolate/edge-value", {"got": edge, "p0": p0}, {}))
    f_in = float(eq.fpol(pb))
    f_out = float(eq.fpol(psi_sol))
    if abs(f_in - f_out) > 1e-9 * abs(f_in):
        fails.append(("C03/extrapolate/fpol-not-constant", {"edge": f_in, "sol": f_out}, {}))
    return fails


def shard_extrapolate(seed, n):
    from hypothesis import strategies as st

    from ..common import ShardResult
    from ..unitlab import hyp_search

    res = ShardResult()
    fl = lambda a, b, k=3: st.floats(a, b).map(lambda x: round(x, k))  # noqa: E731
    strat = st.fixed_dictionaries(
        {
            "topology": st.sampled_from(["lsn", "usn", "cdn"]),
            "sign": st.sampled_from([1.0, -1.0]),
            "A": st.sampled_from([1.0, 0.3, 3.0, 30.0]),
            "nf": st.integers(8, 80),
            "fpol": st.tuples(fl(0.5, 3.0), fl(-0.15, 0.15), fl(-0.08, 0.08), fl(-0.03, 0.03)).map(list),
            "pres": st.tuples(fl(10.0, 5000.0, 1), fl(-0.7, -0.2), fl(-0.05, 0.05), fl(-0.02, 0.02)).map(list),
            "psinorm_sol": fl(1.02, 1.4),
        }
    )
    hyp_search(
        "C03", strat, check_extrapolate, seed=seed, max_examples=n, result=res,
        label=lambda c: ["extrapolate/%s/sign%+d/%s" % (c["topology"], int(c["sign"]), "beyond-profile-grid" if c.pop("_beyond", False) else "within")],
    )
    return res


def run(run):
    from ..unitlab import run_shards

    base = corpus.base_corpus(run.tier, run.seed)
    descs = base + derived(base, run.tier, run.seed)
    gridcheck.run_corpus_property(run, "vf.props.c03", "check", descs)
    n = 40 if run.tier == "quick" else 300
    for r in run_shards("vf.props.c03", "shard_extrapolate", [dict(seed=run.seed * 100 + i, n=n) for i in range(4)]):
        run.merge_shard(r)
    run.rule = RULE
    run.assumptions = [
        "reference field = harness' own interpolant of the (option-transformed) input array; fpol and "
        "pressure references are the generating cubics, clipped to the profile grid (ext=3)",
        "psi_axis/psi_bdry/Bt_axis tolerance derived from xpoint_refine_atol and the reference Hessian",
        "in a leg region the pressure is reflected about that leg's own separatrix value",
    ]


def replay(run, payload):
    if "extrapolate" in payload["bucket"]:
        for b, d, lab in check_extrapolate(payload["case"]):
            run.failure(b, d, payload["case"], lab)
        return
    gridcheck.replay_corpus_property(run, "vf.props.c03", "check", payload)
