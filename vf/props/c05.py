"""C05 - hy and poloidal_distance are true arc lengths along flux surfaces."""

import copy

import numpy

from .. import boutmodel as bm
from .. import corpus, gridcheck, gridlab, surftrace

LEVEL = "exploration"
RULE = (
    "shared gridlab corpus (all topologies reached, orthogonal and non-orthogonal, circular): the "
    "harness follows the reference flux surface between consecutive grid points of every surface "
    "(y-face -> centre -> y-face, also across region joins) with DOP853 at rtol 1e-11 and compares arc "
    "lengths with hy*dy, hy_ylow*dy, poloidal_distance and total_poloidal_distance; metamorphic stratum: "
    "the same descriptor at Nfine, 2 Nfine, 4 Nfine. non-trivial = >= 2 regions chained in y or a "
    "circular grid with ny >= 4; distinct = descriptor hash."
)


def tol_arc(arc, turning, h, miss, chord_err=0.0):
    """Allowed |hypnotoad distance - true arc| for a stretch: distances come from chord sums
    over a FineContour of spacing h (each chord short of its arc by theta^2 h/24, estimated from
    the traced turning in windows of length h; safety 20), plus the interpolation of the
    distance at the two end points (one more chord each) and the misses of the trace."""
    kappa = turning / numpy.maximum(arc, 1e-300)
    smooth = arc * (kappa * h) ** 2 / 24.0 + 2.0 * h * (kappa * h) ** 2 / 24.0
    return 20.0 * numpy.maximum(smooth, 3.0 * chord_err) + 2.0 * miss + 2e-9


def check(case):
    nc, side = case.nc, case.side
    tr0 = surftrace.traces_for(case)
    # rows on which consecutive points are not in poloidal order: arc comparisons are
    # meaningless there (reported once below), also for the neighbours that share the join
    tr = {}
    for rid_, t_ in tr0.items():
        rows = {}
        for rk, A_ in t_["rows"].items():
            A_ = dict(A_)
            # a FineContour segment can straddle two half-cells: let the chord-error estimate of
            # a stretch include that of its neighbours along the row
            ce = numpy.nan_to_num(A_["chord_err"])
            pad = numpy.pad(ce, ((0, 0), (1, 1)))
            A_["chord_err"] = ce + numpy.maximum(pad[:, :-2], pad[:, 2:])
            dirs = A_["dir"]
            fr = ((dirs * numpy.sign(numpy.nansum(dirs, axis=1, keepdims=True)) < 0) & numpy.isfinite(dirs)).any(axis=1)
            A_["folded_rows"] = fr
            if fr.any():
                A_["arc"] = A_["arc"].copy()
                A_["arc"][fr] = numpy.nan
            rows[rk] = A_
        tr[rid_] = {"h": t_["h"], "length": t_["length"], "rows": rows}
    dy = float(nc["dy"][0, 0])
    fails = []
    margins = {}
    hist = []
    xpts = side.get("x_points", [])

    nm = side.get("nonorth_options", {}).get("nonorthogonal_spacing_method")

    def fail(bucket, detail):
        if not any(x[0] == bucket for x in fails):
            fails.append((bucket, detail, {"nonorthogonal_spacing_method": nm, "guard_cell": gridcheck.in_guard_cells(side, detail),
                                           "family": case.desc["family"]}))

    def margin(name, v):
        if numpy.isfinite(v):
            margins[name] = max(margins.get(name, 0.0), float(v))

    conn = side["connections"]
    untraced = 0
    # gap between a region's own contour end and the stored shared y-face (neighbour's point)
    for rid, reg in side["regions"].items():
        if "contour_last" not in reg or conn[rid].get("upper") is None:
            continue
        f = reg["fields"]
        at_x = any(p is not None for p in reg["xp_end"])
        for rowkind, faceloc, sl in (("centre", "ylow", slice(1, None, 2)), ("xlow", "corners", slice(0, None, 2))):
            own = reg["contour_last"][sl]
            gap = numpy.hypot(f["Rxy"][faceloc][:, -1] - own[:, 0], f["Zxy"][faceloc][:, -1] - own[:, 1])
            if faceloc == "corners" and at_x:
                # corners pinned to the X-point are a documented substitution
                px = gridcheck.xpoint_mask(f["Rxy"][faceloc][:, -1], f["Zxy"][faceloc][:, -1], xpts)
                gap = numpy.where(px, 0.0, gap)
            margin("shared-y-face-gap/%s" % ("xpoint-join" if at_x else "other-join"), gap.max() / 1e-6)
            if gap.max() > 1e-6:
                i = int(numpy.argmax(gap))
                fail(
                    "C05/shared-y-face-gap/%s" % ("xpoint-join" if at_x else "other-join"),
                    {"region": reg["name"], "row": rowkind, "ix": i, "gap": float(gap.max()),
                     "note": "hy/poloidal_distance of the last half-cell are measured to the region's own contour end, the stored face is the upper neighbour's point"},
                )
    for rid, reg in side["regions"].items():
        f = reg["fields"]
        h = tr[rid]["h"]
        for rowkind, (faceloc, midloc) in {"centre": ("ylow", "centre"), "xlow": ("corners", "xlow")}.items():
            A = tr[rid]["rows"][rowkind]
            arc, turn, miss, cerr = A["arc"].copy(), A["turning"], A["miss"], A["chord_err"]
            # all steps along a row must go the same way round the flux surface
            dirs = A["dir"]
            ref_dir = numpy.sign(numpy.nansum(dirs, axis=1, keepdims=True))
            folded = (dirs * ref_dir < 0) & numpy.isfinite(dirs)
            if folded.any():
                i, j = numpy.unravel_index(int(numpy.argmax(folded)), folded.shape)
                fail(
                    "C05/points-out-of-poloidal-order/%s" % ("orth" if side["mesh_options"].get("orthogonal", True) else "nonorth"),
                    {"region": reg["name"], "row": rowkind, "ix": int(i), "half_index": int(j),
                     "note": "consecutive points of the surface are not in increasing poloidal order (cell folded)"},
                )
                arc[folded.any(axis=1)] = numpy.nan  # arc comparisons are meaningless on such a row
            hy_mid = f["hy"][midloc]
            hy_face = f["hy"][faceloc]
            nrow, ny = hy_mid.shape
            if not (numpy.all(hy_mid > 0) and numpy.all(hy_face > 0)):
                fail("C05/hy-not-positive", {"region": reg["name"]})
            # cell centres: arc between the two y faces
            want = arc[:, 0::2] + arc[:, 1::2]
            tol = tol_arc(want, turn[:, 0::2] + turn[:, 1::2], h, miss[:, 0::2] + miss[:, 1::2], cerr[:, 0::2] + cerr[:, 1::2])
            err = numpy.abs(hy_mid * dy - want)
            ok = numpy.isfinite(want)
            untraced += int((~ok).sum())
            edge = numpy.zeros(ny, dtype=bool)
            if conn[rid].get("lower") is None:
                edge[0] = True
            if conn[rid].get("upper") is None:
                edge[-1] = True
            if ok.any():
                r = numpy.where(ok, err / tol, 0.0)
                # the outermost boundary half-cell may lie up to 0.25 h beyond the FineContour
                # (documented tolerance of checkFineContourExtend): first-order there
                r_edge = numpy.where(edge[None, :] & (err <= 0.3 * h), 0.0, r)
                margin("hy-%s" % midloc, r_edge.max())
                if r_edge.max() > 1.0:
                    i, j = numpy.unravel_index(int(numpy.argmax(r_edge)), r.shape)
                    fail(
                        "C05/hy-vs-arc/%s" % midloc,
                        {"region": reg["name"], "ix": int(i), "iy": int(j), "hy*dy": float(hy_mid[i, j] * dy), "arc": float(want[i, j]), "tol": float(tol[i, j])},
                    )
                elif r.max() > 1.0:
                    i, j = numpy.unravel_index(int(numpy.argmax(r)), r.shape)
                    fail(
                        "C05/outermost-boundary-half-cell/hy-%s" % midloc,
                        {"region": reg["name"], "ix": int(i), "iy": int(j), "hy*dy": float(hy_mid[i, j] * dy), "arc": float(want[i, j]), "tol": float(tol[i, j]), "h": h},
                    )
            # interior faces: arc between adjacent centres
            if ny >= 2:
                want = arc[:, 1:-1:2] + arc[:, 2::2]
                tolf = tol_arc(want, turn[:, 1:-1:2] + turn[:, 2::2], h, miss[:, 1:-1:2] + miss[:, 2::2], cerr[:, 1:-1:2] + cerr[:, 2::2])
                err = numpy.abs(hy_face[:, 1:-1] * dy - want)
                ok = numpy.isfinite(want)
                if ok.any():
                    r = numpy.where(ok, err / tolf, 0.0)
                    margin("hy-%s-interior" % faceloc, r.max())
                    if r.max() > 1.0:
                        i, j = numpy.unravel_index(int(numpy.argmax(r)), r.shape)
                        fail(
                            "C05/hy-vs-arc/%s-interior" % faceloc,
                            {"region": reg["name"], "ix": int(i), "face": int(j + 1), "hy*dy": float(hy_face[i, j + 1] * dy), "arc": float(want[i, j]), "tol": float(tolf[i, j])},
                        )
            # faces on region joins / boundaries
            for side_name, jf, own_half, nb_half in (("lower", 0, 0, -1), ("upper", ny, -1, 0)):
                nb = conn[rid].get(side_name)
                own = arc[:, own_half]
                if nb is not None:
                    B = tr[nb]["rows"][rowkind]
                    other = B["arc"][:, nb_half]
                    want = own + other
                    t = tol_arc(want, turn[:, own_half] + B["turning"][:, nb_half], h, miss[:, own_half] + B["miss"][:, nb_half], cerr[:, own_half] + B["chord_err"][:, nb_half])
                    tag = "join"
                else:
                    want = 2.0 * own  # documented estimate at a boundary: same as the adjacent half cell
                    t = tol_arc(want, 2 * turn[:, own_half], h, 2 * miss[:, own_half], 2 * cerr[:, own_half])
                    tag = "boundary"
                err = numpy.abs(hy_face[:, jf] * dy - want)
                ok = numpy.isfinite(want)
                if ok.any():
                    r = numpy.where(ok, err / t, 0.0)
                    if tag == "boundary":
                        soft = r.max() > 1.0 and bool(numpy.all((err <= 0.6 * h) | (r <= 1.0)))
                        if soft:
                            i = int(numpy.argmax(r))
                            fail(
                                "C05/outermost-boundary-half-cell/hy-%s" % faceloc,
                                {"region": reg["name"], "side": side_name, "ix": i, "hy*dy": float(hy_face[i, jf] * dy), "arc": float(want[i]), "tol": float(t[i]), "h": h},
                            )
                            r = numpy.zeros_like(r)
                    margin("hy-%s-%s" % (faceloc, tag), r.max())
                    if r.max() > 1.0:
                        i = int(numpy.argmax(r))
                        fail(
                            "C05/hy-vs-arc/%s-%s" % (faceloc, tag),
                            {"region": reg["name"], "side": side_name, "ix": i, "hy*dy": float(hy_face[i, jf] * dy), "arc": float(want[i]), "tol": float(t[i])},
                        )
    # ---- poloidal_distance along chains ----------------------------------------------
    g = int(side["mesh_options"].get("y_boundary_guards", 0))
    chains = surftrace.chain_order(side)
    multi = any(len(c) > 1 for c, _ in chains)
    for chain, periodic in chains:
        for rowkind, (faceloc, midloc) in {"centre": ("ylow", "centre"), "xlow": ("corners", "xlow")}.items():
            first = side["regions"][chain[0]]
            pd0 = first["fields"]["poloidal_distance"]
            g0 = g if (first["kind"].startswith("wall") and not periodic) else 0
            origin = pd0[faceloc][:, g0]
            if numpy.abs(origin).max() > 1e-12:
                fail(
                    "C05/poloidal_distance-origin/%s" % ("closed" if periodic else "open"),
                    {"region": first["name"], "value_at_origin_face": float(numpy.abs(origin).max())},
                )
            cum = None
            cumtol = None
            total_arc = 0.0
            prev_last = None
            for rid in chain:
                reg = side["regions"][rid]
                pd = reg["fields"]["poloidal_distance"]
                A = dict(tr[rid]["rows"][rowkind])
                dirs = A["dir"]
                fold_rows = ((dirs * numpy.sign(numpy.nansum(dirs, axis=1, keepdims=True)) < 0) & numpy.isfinite(dirs)).any(axis=1)
                if fold_rows.any():
                    A["arc"] = A["arc"].copy()
                    A["arc"][fold_rows] = numpy.nan
                hh = tr[rid]["h"]
                nrow, ny = pd[midloc].shape
                seq = numpy.empty((nrow, 2 * ny + 1))
                seq[:, 0::2] = pd[faceloc]
                seq[:, 1::2] = pd[midloc]
                d = numpy.diff(seq, axis=1)
                if not numpy.all(d > 0):
                    i, j = numpy.unravel_index(int(numpy.argmin(d)), d.shape)
                    fail("C05/poloidal_distance-not-increasing", {"region": reg["name"], "ix": int(i), "half_index": int(j), "step": float(d[i, j])})
                if prev_last is not None and numpy.abs(prev_last - seq[:, 0]).max() > 1e-10:
                    fail("C05/poloidal_distance-discontinuous-at-join", {"region": reg["name"], "max_jump": float(numpy.abs(prev_last - seq[:, 0]).max()), "h": hh})
                prev_last = seq[:, -1]
                # increments vs traced arcs
                t = tol_arc(A["arc"], A["turning"], hh, A["miss"], A["chord_err"])
                ok = numpy.isfinite(A["arc"])
                r = numpy.where(ok, numpy.abs(d - A["arc"]) / t, 0.0)
                edge = numpy.zeros(d.shape[1], dtype=bool)
                if conn[rid].get("lower") is None:
                    edge[0] = True
                if conn[rid].get("upper") is None:
                    edge[-1] = True
                soft = edge[None, :] & (numpy.abs(d - A["arc"]) <= 0.3 * hh) & (r > 1.0)
                if soft.any():
                    i, j = numpy.unravel_index(int(numpy.argmax(soft)), soft.shape)
                    fail(
                        "C05/outermost-boundary-half-cell/poloidal_distance",
                        {"region": reg["name"], "ix": int(i), "half_index": int(j), "increment": float(d[i, j]), "arc": float(A["arc"][i, j]), "h": hh},
                    )
                    r = numpy.where(soft, 0.0, r)
                margin("poloidal_distance-increment", r.max())
                if r.max() > 1.0:
                    i, j = numpy.unravel_index(int(numpy.argmax(r)), r.shape)
                    fail(
                        "C05/poloidal_distance-vs-arc",
                        {"region": reg["name"], "ix": int(i), "half_index": int(j), "increment": float(d[i, j]), "arc": float(A["arc"][i, j]), "tol": float(t[i, j])},
                    )
            if periodic:
                # total_poloidal_distance = circumference
                tot = numpy.zeros(side["regions"][chain[0]]["fields"]["poloidal_distance"][midloc].shape[0])
                ttol = numpy.zeros_like(tot)
                for rid in chain:
                    A = tr[rid]["rows"][rowkind]
                    tot += numpy.nansum(A["arc"], axis=1)
                    ttol += numpy.nansum(tol_arc(A["arc"], A["turning"], tr[rid]["h"], A["miss"], A["chord_err"]), axis=1)
                tp = side["regions"][chain[0]]["fields"].get("total_poloidal_distance")
                if tp is None or midloc not in tp:
                    fail("C05/total_poloidal_distance-missing", {"row": midloc})
                else:
                    got = tp[midloc][:, 0]
                    r = numpy.abs(got - tot) / ttol
                    margin("total_poloidal_distance", r.max())
                    if not r.max() <= 1.0:
                        i = int(numpy.nanargmax(r))
                        fail("C05/total_poloidal_distance", {"ix": i, "got": float(got[i]), "circumference": float(tot[i])})
    # file level: total_poloidal_distance NaN exactly outside the core; hthe == hy
    t = bm.topology_from_file(nc)
    tpd = numpy.asarray(nc["total_poloidal_distance"])
    nxf = nc["Rxy"].shape[0]
    has_core = t["ixseps1"] > 0 and not (t["jyseps1_1"] < 0 and t["ixseps1"] < nxf) and bm.n_core_cells(t) > 0
    ix_in = min(t["ixseps1"], t["ixseps2"], nxf) if t["jyseps2_1"] != t["jyseps1_2"] else min(t["ixseps1"], nxf)
    for x in range(nxf):
        closed = has_core and x < ix_in
        if closed != bool(numpy.isfinite(tpd[x])):
            fail("C05/total_poloidal_distance-nan-pattern", {"x": x, "value": float(tpd[x]), "closed_surface": closed, "ixseps1": t["ixseps1"]})
            break
    if "hthe" in nc and not numpy.array_equal(nc["hthe"], nc["hy"]):
        fail("C05/hthe-differs-from-hy", {})
    hist.append("untraced-half-cells/%s" % ("0" if untraced == 0 else ">0"))
    hist.append("chains/%s" % ("multi-region" if multi else "single-region"))
    nontrivial = multi or (case.desc["family"] == "C" and nc["Rxy"].shape[1] >= 4)
    return {"fails": fails, "nontrivial": bool(nontrivial), "margins": margins, "hist": hist}


def hy_error(case):
    """max relative |hy*dy - arc| over cell centres (for the Nfine convergence stratum)."""
    tr = surftrace.traces_for(case)
    dy = float(case.nc["dy"][0, 0])
    worst = 0.0
    for rid, reg in case.side["regions"].items():
        A = tr[rid]["rows"]["centre"]
        want = A["arc"][:, 0::2] + A["arc"][:, 1::2]
        err = numpy.abs(reg["fields"]["hy"]["centre"] * dy - want) / want
        worst = max(worst, float(numpy.nanmax(err)))
    return {"err": worst}


def convergence(run):
    base = [
        {"family": "G", "entry": "api", "eq": {"topology": "lsn", "sign": 1.0, "fpol": [2.0, 0.1, 0, 0]},
         "options": {"orthogonal": True, "nx_core": 2, "nx_sol": 2, "ny_inner_divertor": 4, "ny_outer_divertor": 4, "ny_sol": 8, "y_boundary_guards": 1}},
        {"family": "C", "entry": "api", "eq": {}, "options": {"nx": 3, "ny": 8, "r_inner": 0.1, "r_outer": 0.3, "R0": 1.2, "orthogonal": True}},
    ]
    if run.tier != "quick":
        base.append({"family": "G", "entry": "api", "eq": {"topology": "cdn", "sign": -1.0, "fpol": [2.0, 0.1, 0, 0]},
                     "options": {"orthogonal": True, "nx_core": 2, "nx_sol": 2, "y_boundary_guards": 0,
                                 **{k: 4 for k in ["ny_inner_lower_divertor", "ny_inner_upper_divertor", "ny_outer_lower_divertor", "ny_outer_upper_divertor", "ny_inner_sol", "ny_outer_sol"]}}})
    nfs = [25, 50, 100]
    descs = []
    for b in base:
        for nf in nfs:
            d = copy.deepcopy(b)
            d["options"]["finecontour_Nfine"] = nf
            descs.append(d)
    cases = gridlab.run_cases(descs, timeout=900)
    outs = gridcheck.check_cases("vf.props.c05", "hy_error", cases)
    for k in range(0, len(cases), len(nfs)):
        grp = outs[k : k + len(nfs)]
        if any(o is None for o in grp):
            run.bump("Nfine-convergence/not-all-generated")
            continue
        errs = [o["err"] for o in grp]
        run.count(descs[k], nontrivial=True, key="conv:" + gridlab.desc_id(descs[k]))
        run.extra.setdefault("nfine_convergence_errors", []).append({"Nfine": nfs, "max_rel_err": errs})
        for a, b in zip(errs[:-1], errs[1:]):
            if a > 1e-8:
                ratio = a / b
                run.bump("Nfine-convergence/ratio-%s" % ("ok" if 2.0 <= ratio <= 8.0 else "out-of-range"))
                if not (2.0 <= ratio <= 8.0):
                    run.failure(
                        "C05/Nfine-convergence-not-quadratic",
                        {"Nfine": nfs, "max_rel_err": errs},
                        {"desc": descs[k]},
                        {},
                    )


def run(run):
    descs = corpus.base_corpus(run.tier, run.seed)
    gridcheck.run_corpus_property(run, "vf.props.c05", "check", descs)
    convergence(run)
    run.rule = RULE
    run.assumptions = [
        "tolerance per stretch: 8 (kappa h)^2/24 x (arc + h) + 2 x miss + 2e-9, h = region length / finecontour_Nfine, "
        "kappa = traced turning / arc (chord-sum error of the documented FineContour distance)",
        "at a y-boundary hy_ylow is documented to be twice the adjacent half-cell distance",
        "poloidal_distance origin: the y-face at index y_boundary_guards of the first region of an open chain, "
        "the first y-face of the first region (lowest y-index) of a closed chain",
    ]


def replay(run, payload):
    if "Nfine" in payload["bucket"]:
        print("Nfine convergence replay: re-run the check (triples are compared)")
        return
    gridcheck.replay_corpus_property(run, "vf.props.c05", "check", payload)
