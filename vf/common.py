"""Shared plumbing: environment, evidence files, known findings, violation reporting.

Exit codes of every check: 0 = property held on everything explored (KNOWN-FINDING lines
may have been printed), 1 = at least one `VIOLATION property=<id> replay=<path>` line,
2 = harness error (never a violation).
"""

import fnmatch
import hashlib
import json
import math
import os
import sys
import time

VERIF = os.path.dirname(os.path.dirname(os.path.abspath(__file__)))
REPO = os.environ.get("VF_REPO", "/repo")
DEPS = os.environ.get("VF_DEPS", os.path.join(VERIF, ".deps"))
EVIDENCE_DIR = os.environ.get("VF_EVIDENCE_DIR", os.path.join(VERIF, "evidence"))
REPLAY_DIR = os.environ.get("VF_REPLAY_DIR", os.path.join(VERIF, "replays"))
KNOWN_FINDINGS = os.path.join(VERIF, "known_findings.json")
GUARD = "HYPNOTOAD_VERIF"


def setup_env():
    """Make `import hypnotoad` resolve to REPO's working tree and silence GUI back ends."""
    os.environ.setdefault("MPLBACKEND", "Agg")
    os.environ["MPLBACKEND"] = "Agg"
    os.environ.setdefault("OMP_NUM_THREADS", "1")
    os.environ.setdefault("OPENBLAS_NUM_THREADS", "1")
    os.environ.setdefault("MKL_NUM_THREADS", "1")
    os.environ[GUARD] = "1"
    if REPO not in sys.path[:1]:
        sys.path.insert(0, REPO)
    if DEPS not in sys.path:
        sys.path.append(DEPS)
    pp = os.environ.get("PYTHONPATH", "")
    parts = [p for p in pp.split(os.pathsep) if p]
    changed = False
    if REPO not in parts:
        parts.insert(0, REPO)
        changed = True
    if VERIF not in parts:
        parts.append(VERIF)
        changed = True
    if DEPS not in parts:
        parts.append(DEPS)
        changed = True
    if changed:
        os.environ["PYTHONPATH"] = os.pathsep.join(parts)
    pin_hypothesis()


def pin_hypothesis():
    """Make Hypothesis' generation a pure function of (strategy, seed).

    Hypothesis >= 6.13x mixes numeric/string constants harvested from every *local* module in
    sys.modules (here: /verif/vf and /repo/hypnotoad) into what it generates. The pool grows as
    modules get imported, so the cases drawn would depend on the import history of the process and
    on the text of the code under test. The harness switches that pool off (idempotent)."""
    try:
        from hypothesis.internal.conjecture import providers
    except Exception:  # noqa: BLE001 - older/newer layouts: nothing to pin
        return
    if getattr(providers, "_vf_pinned", False):
        return
    try:
        empty = providers.Constants()
        providers._get_local_constants = lambda: empty
        providers.CONSTANTS_CACHE.cache.clear()
        providers._vf_pinned = True
    except Exception:  # noqa: BLE001
        pass


def seed_from_env():
    try:
        return int(os.environ.get("VERIF_SEED", "1"))
    except ValueError:
        return 1


def derive_seed(*parts):
    h = hashlib.sha256(repr(parts).encode()).digest()
    return int.from_bytes(h[:4], "big")


def jsonable(x):
    """Convert numpy scalars/arrays, tuples, non-finite floats into plain JSON values."""
    try:
        import numpy

        if isinstance(x, numpy.ndarray):
            return [jsonable(v) for v in x.tolist()]
        if isinstance(x, numpy.generic):
            return jsonable(x.item())
    except ImportError:  # pragma: no cover
        pass
    if isinstance(x, dict):
        return {str(k): jsonable(v) for k, v in x.items()}
    if isinstance(x, (list, tuple, set, frozenset)):
        return [jsonable(v) for v in x]
    if isinstance(x, float):
        if math.isnan(x):
            return "nan"
        if math.isinf(x):
            return "inf" if x > 0 else "-inf"
        return x
    if isinstance(x, (int, str, bool)) or x is None:
        return x
    if isinstance(x, bytes):
        return {"__bytes__": x.hex()}
    return repr(x)


def case_hash(case):
    return hashlib.sha256(
        json.dumps(jsonable(case), sort_keys=True).encode()
    ).hexdigest()[:16]


class KnownFindings:
    def __init__(self, path=KNOWN_FINDINGS):
        self.open = []
        self.fixed = []
        if os.path.exists(path):
            with open(path) as f:
                data = json.load(f)
            self.open = data.get("open", [])
            self.fixed = data.get("fixed", [])

    def match(self, prop, bucket, labels):
        """Return the open entry that lists this (property, bucket, labels) or None."""
        for e in self.open:
            if e["property"] != prop:
                continue
            if not fnmatch.fnmatchcase(bucket, e["bucket"]):
                continue
            where = e.get("where", {})
            ok = True
            for k, v in where.items():
                have = (labels or {}).get(k)
                if isinstance(v, list):
                    if have not in v:
                        ok = False
                elif have != v:
                    ok = False
            if ok:
                return e
        return None


class Run:
    """Collects what one check run covered and decides its exit code."""

    def __init__(self, prop, tier, seed, level="exploration"):
        self.prop = prop
        self.tier = tier
        self.seed = seed
        self.level = level
        self.t0 = time.time()
        self.evaluations = 0
        self.nontrivial = set()
        self.samples = []
        self.rule = ""
        self.extra = {}
        self.assumptions = []
        self.violations = []  # (bucket, detail, replay path)
        self.known_hits = {}  # entry id -> count
        self.known = KnownFindings()
        self.max_samples = 5
        self.inconclusive = 0

    # ---- coverage -----------------------------------------------------------
    def count(self, case=None, nontrivial=False, n=1, key=None):
        self.evaluations += n
        if nontrivial:
            self.nontrivial.add(key if key is not None else case_hash(case))

    def sample(self, case):
        if len(self.samples) < self.max_samples:
            self.samples.append(jsonable(case))

    def bump(self, name, n=1):
        h = self.extra.setdefault("histogram", {})
        h[name] = h.get(name, 0) + n

    def merge_shard(self, res):
        """Merge the dictionary returned by a shard (see ShardResult.as_dict)."""
        self.evaluations += res["evaluations"]
        self.nontrivial.update(res["nontrivial"])
        for s in res["samples"]:
            if len(self.samples) < self.max_samples:
                self.samples.append(s)
        for k, v in res.get("histogram", {}).items():
            self.bump(k, v)
        for k, v in res.get("known_hits", {}).items():
            self.known_hits[k] = self.known_hits.get(k, 0) + v
        for k, v in res.get("margins", {}).items():
            m = self.extra.setdefault("max_error_over_tolerance", {})
            m[k] = max(m.get(k, 0.0), v)
        self.inconclusive += res.get("inconclusive", 0)
        for bucket, detail, case, labels in res.get("failures", []):
            self.failure(bucket, detail, case, labels)

    # ---- failures -----------------------------------------------------------
    def failure(self, bucket, detail, case, labels=None):
        """Report a failing case. Returns True if it is an unlisted violation."""
        e = self.known.match(self.prop, bucket, labels)
        if e is not None:
            self.known_hits[e["id"]] = self.known_hits.get(e["id"], 0) + 1
            return False
        for b, _, _ in self.violations:
            if b == bucket:
                return True  # one replay per root-cause bucket
        os.makedirs(os.path.join(REPLAY_DIR, self.prop), exist_ok=True)
        payload = {
            "property": self.prop,
            "bucket": bucket,
            "detail": jsonable(detail),
            "labels": jsonable(labels or {}),
            "case": jsonable(case),
            "seed": self.seed,
            "tier": self.tier,
        }
        name = "%s-%s.json" % (
            bucket.replace("/", "_").replace(" ", "_")[:80],
            case_hash(case),
        )
        path = os.path.join(REPLAY_DIR, self.prop, name)
        with open(path, "w") as f:
            json.dump(payload, f, indent=1, sort_keys=True)
        self.violations.append((bucket, detail, path))
        return True

    def is_known(self, bucket, labels=None):
        return self.known.match(self.prop, bucket, labels) is not None

    # ---- finish -------------------------------------------------------------
    def finish(self):
        wall = time.time() - self.t0
        os.makedirs(EVIDENCE_DIR, exist_ok=True)
        cov = {
            "evaluations": int(self.evaluations),
            "distinct_nontrivial": int(len(self.nontrivial)),
            "rule": self.rule,
            "samples": self.samples,
            "inconclusive": self.inconclusive,
            "known_finding_hits": self.known_hits,
        }
        cov.update(jsonable({k: v for k, v in self.extra.items() if not k.startswith("_")}))
        ev = {
            "property_id": self.prop,
            "tier": self.tier,
            "seed": int(self.seed),
            "level": self.level,
            "coverage": cov,
            "assumptions": self.assumptions,
            "wall_s": round(wall, 3),
            "violations": len(self.violations),
        }
        path = os.path.join(EVIDENCE_DIR, self.prop + ".json")
        with open(path, "w") as f:
            json.dump(ev, f, indent=1, sort_keys=True)
        try:
            import jsonschema

            schema_path = "/root/.vp/EVIDENCE.schema.json"
            local = os.path.join(VERIF, "vf", "EVIDENCE.schema.json")
            sp = local if os.path.exists(local) else schema_path
            if os.path.exists(sp):
                with open(sp) as f:
                    jsonschema.validate(ev, json.load(f))
        except ImportError:
            pass
        for e in self.known.open:
            if e["property"] == self.prop and self.known_hits.get(e["id"], 0) > 0:
                print(
                    "KNOWN-FINDING: property=%s %s (seen %d times in this run)"
                    % (self.prop, e["what"], self.known_hits[e["id"]])
                )
        for bucket, detail, path in self.violations:
            print("  bucket=%s detail=%s" % (bucket, json.dumps(jsonable(detail))[:600]))
            print("VIOLATION property=%s replay=%s" % (self.prop, path))
        print(
            "%s tier=%s seed=%d evaluations=%d distinct_nontrivial=%d violations=%d "
            "wall=%.1fs"
            % (
                self.prop,
                self.tier,
                self.seed,
                self.evaluations,
                len(self.nontrivial),
                len(self.violations),
                wall,
            )
        )
        sys.stdout.flush()
        return 1 if self.violations else 0


class ShardResult:
    """Picklable accumulator used inside worker processes."""

    def __init__(self):
        self.evaluations = 0
        self.nontrivial = set()
        self.samples = []
        self.histogram = {}
        self.failures = []
        self.known_hits = {}
        self.margins = {}
        self.inconclusive = 0

    def count(self, case=None, nontrivial=False, key=None):
        self.evaluations += 1
        if nontrivial:
            self.nontrivial.add(key if key is not None else case_hash(case))

    def sample(self, case, limit=3):
        if len(self.samples) < limit:
            self.samples.append(jsonable(case))

    def bump(self, name, n=1):
        self.histogram[name] = self.histogram.get(name, 0) + n

    def margin(self, name, ratio):
        if ratio == ratio:
            self.margins[name] = max(self.margins.get(name, 0.0), float(ratio))

    def as_dict(self):
        return {
            "evaluations": self.evaluations,
            "nontrivial": sorted(self.nontrivial),
            "samples": self.samples,
            "histogram": self.histogram,
            "failures": [
                (b, jsonable(d), jsonable(c), jsonable(lab))
                for b, d, c, lab in self.failures
            ],
            "known_hits": self.known_hits,
            "margins": self.margins,
            "inconclusive": self.inconclusive,
        }
