"""CLI:  python -m vf.run <Cxx> --tier quick|thorough [--replay file]

Dispatches to vf.props.<cxx>.run(run: Run) / .replay(run: Run, payload).
"""

import argparse
import importlib
import json
import os
import sys
import traceback


def main(argv=None):
    if os.environ.get("PYTHONHASHSEED") != "0":
        os.environ["PYTHONHASHSEED"] = "0"
        os.execv(sys.executable, [sys.executable, "-m", "vf.run"] + sys.argv[1:])
    from .common import Run, seed_from_env, setup_env

    setup_env()
    ap = argparse.ArgumentParser()
    ap.add_argument("prop")
    ap.add_argument("--tier", default=os.environ.get("VERIF_TIER", "quick"))
    ap.add_argument("--replay", default=None)
    ap.add_argument("--seed", type=int, default=None)
    args = ap.parse_args(argv)
    tier = args.tier if args.tier in ("quick", "thorough") else "quick"
    seed = args.seed if args.seed is not None else seed_from_env()
    prop = args.prop.upper()
    try:
        mod = importlib.import_module("vf.props." + prop.lower())
        level = getattr(mod, "LEVEL", "exploration")
        run = Run(prop, tier, seed, level=level)
        if args.replay:
            with open(args.replay) as f:
                payload = json.load(f)
            mod.replay(run, payload)
            # a replay must not overwrite the evidence of a full run
            for bucket, detail, path in run.violations:
                print("  bucket=%s detail=%s" % (bucket, json.dumps(detail)[:600]))
                print("VIOLATION property=%s replay=%s" % (prop, args.replay))
            if not run.violations:
                print("replay: property held on %s" % args.replay)
            return 1 if run.violations else 0
        mod.run(run)
        return run.finish()
    except SystemExit:
        raise
    except BaseException:  # noqa: BLE001
        traceback.print_exc()
        print("HARNESS-ERROR property=%s (exit 2, not a violation)" % prop)
        return 2


if __name__ == "__main__":
    sys.exit(main())
