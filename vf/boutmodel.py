"""Reference model of how BOUT++ interprets the topology integers of a grid file
(BOUT++ manual, "BOUT++ topology"; BoutMesh::topology).

y ranges (guard cells excluded, 0 <= y < ny):
    lower inner leg   0              .. jyseps1_1
    inner core        jyseps1_1 + 1  .. jyseps2_1
    upper inner leg   jyseps2_1 + 1  .. ny_inner - 1     (double null only)
    upper outer leg   ny_inner       .. jyseps1_2        (double null only)
    outer core        jyseps1_2 + 1  .. jyseps2_2
    lower outer leg   jyseps2_2 + 1  .. ny - 1
The branch cut at the lower X-point applies to x < ixseps1, the one at the upper X-point to
x < ixseps2. Targets at y = 0 (lower side), ny_inner-1 | ny_inner (double null only) and ny-1.
jyseps2_1 == jyseps1_2 means there is no upper X-point (single null / no X-point).
"""

TARGET = None


def ordering_problems(t):
    """List of violated ordering constraints (BOUT++ rewrites indices that violate them,
    which silently changes the topology)."""
    ny = t["ny"]
    j11, j21, j12, j22 = t["jyseps1_1"], t["jyseps2_1"], t["jyseps1_2"], t["jyseps2_2"]
    p = []
    if j11 < -1:
        p.append("jyseps1_1 < -1")
    if j21 < j11:
        p.append("jyseps2_1 < jyseps1_1")
    if j12 < j21:
        p.append("jyseps1_2 < jyseps2_1")
    if j22 < j12:
        p.append("jyseps2_2 < jyseps1_2")
    if j22 > ny:
        p.append("jyseps2_2 > ny")
    return p


def up_neighbour(t, x, y):
    """y-up neighbour of cell (x, y) in guard-free indices, or TARGET."""
    ny = t["ny"]
    j11, j21, j12 = t["jyseps1_1"], t["jyseps2_1"], t["jyseps1_2"]
    j22 = min(t["jyseps2_2"], ny - 1)
    ix1, ix2 = t["ixseps1"], t["ixseps2"]
    double = j21 != j12
    if double:
        if y == t["ny_inner"] - 1:
            return TARGET
        if y == j11 and x < ix1:
            return j22 + 1 if j22 + 1 < ny else TARGET
        if y == j22 and x < ix1:
            return j11 + 1
        if y == j21 and x < ix2:
            return j12 + 1
        if y == j12 and x < ix2:
            return j21 + 1
    else:
        if y == j11 and x < ix1:
            return j22 + 1 if j22 + 1 < ny else TARGET
        if y == j22 and x < ix1:
            return j11 + 1
    if y == ny - 1:
        return TARGET
    return y + 1


def is_core_cell(t, x, y):
    """Closed-field-line cell: in a core y-range and inside the separatrix bounding it."""
    ny = t["ny"]
    j11, j21, j12 = t["jyseps1_1"], t["jyseps2_1"], t["jyseps1_2"]
    j22 = min(t["jyseps2_2"], ny - 1)
    ix_in = min(t["ixseps1"], t["ixseps2"]) if j21 != j12 else t["ixseps1"]
    in_core_y = (j11 + 1 <= y <= j21) or (j12 + 1 <= y <= j22)
    if j21 == j12:
        in_core_y = j11 + 1 <= y <= j22
    return in_core_y and x < ix_in


def n_core_cells(t):
    """Number of y-indices BOUT++ treats as core: (jyseps1_1, jyseps2_1] and (jyseps1_2, jyseps2_2].
    Zero for an isolated X-point (TORPEX), where all four legs are open."""
    ny = t["ny"]
    j11, j21, j12 = t["jyseps1_1"], t["jyseps2_1"], t["jyseps1_2"]
    j22 = min(t["jyseps2_2"], ny - 1)
    if j21 == j12:
        return max(j22 - j11, 0)
    return max(j21 - j11, 0) + max(j22 - j12, 0)


def file_y(t, y):
    """Index of guard-free y in the guard-containing file arrays."""
    myg = t["myg"]
    double = t["jyseps2_1"] != t["jyseps1_2"]
    if double and y >= t["ny_inner"]:
        return y + 3 * myg
    return y + myg


def bout_y(t, yf):
    """Inverse of file_y: guard-free index or None for a guard cell."""
    myg = t["myg"]
    ny = t["ny"]
    double = t["jyseps2_1"] != t["jyseps1_2"]
    if yf < myg:
        return None
    if double:
        if yf < myg + t["ny_inner"]:
            return yf - myg
        if yf < 3 * myg + t["ny_inner"]:
            return None
        y = yf - 3 * myg
        return y if y < ny else None
    y = yf - myg
    return y if y < ny else None


def topology_from_file(nc):
    keys = ["ixseps1", "ixseps2", "jyseps1_1", "jyseps2_1", "jyseps1_2", "jyseps2_2", "ny_inner", "nx", "ny"]
    t = {k: int(nc[k]) for k in keys}
    t["myg"] = int(nc["y_boundary_guards"])
    return t
