"""Module-level task functions for the C13 schedule-controlled ParallelMap harness.

A task announces `started_<k>`, blocks until the controller creates `token_<k>`, then either
announces `raised_<k>` and raises, or announces `done_<k>` and returns a value that depends on
its payload and index (so a result in the wrong position is visible)."""

import os
import time


class TaskFault(ValueError):
    pass


class CtorFault(Exception):
    """Pickles, but cannot be unpickled: Exception.__reduce__ replays only self.args."""

    def __init__(self, k, text):
        super().__init__("%s (task %d)" % (text, k))


FAULT_KINDS = ("plain", "local", "timeout", "ctor", "lock")


def make_fault(k, kind):
    """The exception a failing task raises. Kinds other than 'plain' are what hypnotoad's own tasks
    raise: a class defined inside a function (followPerpendicular's MaxIterException) and
    func_timeout.FunctionTimedOut (a BaseException carrying the timed-out local function) cannot be
    serialised by the standard pickle that multiprocessing queues use."""
    msg = "task %d was told to fail" % k
    if kind == "plain":
        return TaskFault(msg)
    if kind == "local":

        class LocalFault(Exception):
            pass

        return LocalFault(msg)
    if kind == "timeout":
        from func_timeout import FunctionTimedOut

        def timed_out_function():
            return None

        return FunctionTimedOut(msg, 1.0, timed_out_function, (), {})
    if kind == "ctor":
        return CtorFault(k, "task %d was told to fail" % k)
    if kind == "lock":
        import threading

        e = TaskFault(msg)
        e.lock = threading.Lock()
        return e
    raise ValueError(kind)


def value(k, payload):
    return (k, payload * 7 + 3, "p%d" % payload)


def _touch(path):
    with open(path, "w") as f:
        f.write("1")


def task(k, payload, scratch, fault, **kw):
    # kw: equilibrium, psi, f_R, f_Z (+ extra keyword passed through ParallelMap.__call__)
    _touch(os.path.join(scratch, "started_%d" % k))
    tok = os.path.join(scratch, "token_%d" % k)
    t0 = time.time()
    while not os.path.exists(tok):
        time.sleep(0.0005)
        if time.time() - t0 > 120:
            raise RuntimeError("harness: token for task %d never arrived" % k)
    if fault:
        _touch(os.path.join(scratch, "raised_%d" % k))
        raise make_fault(k, "plain" if fault is True else fault)
    # the equilibrium must have arrived intact in the worker
    eq = kw["equilibrium"]
    v = value(k, payload)
    if kw.get("tag") is not None:
        v = v + (kw["tag"], eq.marker)
    _touch(os.path.join(scratch, "done_%d" % k))
    return v


class FakeEquilibrium:
    """Minimal picklable stand-in carrying what ParallelMap reads."""

    marker = "eq-marker"

    def psi(self, R, Z):
        return R - Z

    def f_R(self, R, Z):
        return 1.0

    def f_Z(self, R, Z):
        return -1.0
