"""Verification framework for boutproject/hypnotoad (property-based testing and fuzzing)."""
