#!/venv/bin/python
"""atheris target for C17: bytes -> FuzzedDataProvider -> geqdsk dictionary ->
hypnotoad write -> hypnotoad read (and reference abutting writer -> read) -> ten-digit oracle.

Usage: fuzz_geqdsk.py <corpus dir> -runs=N -seed=S ...   (summary JSON in $VF_FUZZ_OUT)
The semantic oracle is inside the target; a failing input is recorded (bucketed) and the
campaign continues, so a shallow defect does not hide deeper ones.
"""
import atexit  # noqa: F401
import hashlib
import json
import os
import sys

HERE = os.path.dirname(os.path.dirname(os.path.abspath(__file__)))
sys.path.insert(0, HERE)
from vf.common import setup_env  # noqa: E402

setup_env()
import atheris  # noqa: E402

with atheris.instrument_imports(include=["hypnotoad.geqdsk"]):
    from hypnotoad.geqdsk import _geqdsk  # noqa: F401,E402

from vf.props import c17  # noqa: E402

STATE = {"executions": 0, "nontrivial": set(), "failures": {}, "samples": []}
OUT = os.environ.get("VF_FUZZ_OUT", "fuzz_out.json")
MAX_RUNS = None


def dump():
    with open(OUT, "w") as f:
        json.dump(
            {
                "executions": STATE["executions"],
                "nontrivial_hashes": sorted(STATE["nontrivial"])[:200000],
                "failures": [[b, d, h] for b, (d, h) in STATE["failures"].items()],
                "samples": STATE["samples"],
            },
            f,
        )


def one_input(data):
    STATE["executions"] += 1
    case = c17.fuzz_decode(data)
    fails = c17.check_case(case)
    if c17.nontrivial(case):
        STATE["nontrivial"].add(hashlib.sha256(data).hexdigest()[:16])
        if len(STATE["samples"]) < 2:
            STATE["samples"].append(c17.compact(case))
    for b, d, _ in fails:
        if b not in STATE["failures"] or len(data) < len(bytes.fromhex(STATE["failures"][b][1])):
            STATE["failures"][b] = (d, data.hex())
    if STATE["executions"] % 2000 == 0 or (MAX_RUNS and STATE["executions"] >= MAX_RUNS):
        dump()


def main():
    global MAX_RUNS
    for a in sys.argv:
        if a.startswith("-runs="):
            MAX_RUNS = int(a.split("=")[1])
    atheris.Setup(sys.argv, one_input)
    try:
        atheris.Fuzz()
    finally:
        dump()


if __name__ == "__main__":
    main()
