"""In-process Hypothesis driver with bucketed failures, shrinking to a replay payload, and
sharding over processes.

A *check* is a function case -> list of (bucket, detail, labels). A bucket names the violated
clause, so distinct root causes are separated; buckets listed as open known findings are
counted and skipped so the search continues behind them.
"""

import multiprocessing
import os
import signal
import sys
import traceback

from .common import KnownFindings, ShardResult, derive_seed, setup_env


class HarnessError(Exception):
    pass


class _Found(Exception):
    """Raised inside a Hypothesis test body for a recorded property failure (so that any
    other exception - including AssertionError from harness code - is a harness error)."""


class CaseTimeout(BaseException):
    """A single generated case exceeded its time budget (BaseException: code under test that
    catches Exception must not swallow it)."""


def time_limit(seconds):
    """Context manager: raise CaseTimeout in the main thread after `seconds` (None: no limit)."""
    import contextlib

    @contextlib.contextmanager
    def cm():
        if not seconds:
            yield
            return

        def handler(signum, frame):
            raise CaseTimeout()

        old = signal.signal(signal.SIGALRM, handler)
        signal.setitimer(signal.ITIMER_REAL, float(seconds))
        try:
            yield
        finally:
            signal.setitimer(signal.ITIMER_REAL, 0.0)
            signal.signal(signal.SIGALRM, old)

    return cm()


def hyp_search(
    prop,
    strategy,
    check,
    *,
    seed,
    max_examples,
    result,
    nontrivial=None,
    label=None,
    max_buckets=4,
    shrink=True,
    sample_limit=3,
    case_timeout=900.0,
):
    """Run `check` over `strategy` with Hypothesis; record into `result` (ShardResult).

    case_timeout (seconds): a single case that runs longer is abandoned and counted as
    inconclusive (a changed hypnotoad that loops forever must not hang the check, and a time
    budget hit is never a violation)."""
    import hypothesis
    from hypothesis import HealthCheck, Phase, given, settings

    from .common import pin_hypothesis

    pin_hypothesis()
    known = KnownFindings()
    ignore = set()
    phases = [Phase.generate, Phase.target]
    if shrink:
        phases.append(Phase.shrink)
    rounds = 0
    while rounds < max_buckets:
        state = {"target": None, "last": None}

        def body(case):
            try:
                with time_limit(case_timeout):
                    fails = check(case)
            except CaseTimeout:
                result.inconclusive += 1
                result.bump("inconclusive/case-timeout")
                result.count(case, nontrivial=False)
                return
            nt = bool(nontrivial(case)) if nontrivial is not None else True
            result.count(case, nontrivial=nt)
            if nt:
                result.sample(case, limit=sample_limit)
            if label is not None:
                for lab in label(case):
                    result.bump(lab)
            unknown = []
            for b, d, lab in fails:
                e = known.match(prop, b, lab)
                if e is not None:
                    result.known_hits[e["id"]] = result.known_hits.get(e["id"], 0) + 1
                    continue
                if b in ignore:
                    continue
                unknown.append((b, d, lab))
            if not unknown:
                return
            if state["target"] is None:
                state["target"] = unknown[0][0]
            for b, d, lab in unknown:
                if b == state["target"]:
                    state["last"] = (b, d, case, lab)
                    raise _Found(b)

        test = given(strategy)(body)
        test = settings(
            max_examples=max_examples,
            database=None,
            deadline=None,
            report_multiple_bugs=False,
            suppress_health_check=list(HealthCheck),
            phases=phases,
            print_blob=False,
        )(test)
        test = hypothesis.seed(derive_seed(seed, rounds))(test)
        try:
            test()
        except _Found:
            pass
        except hypothesis.errors.HypothesisException as e:
            # Flaky etc.: keep the recorded failure if there is one, otherwise harness error
            if state["last"] is None:
                raise HarnessError("hypothesis error without failure: %r" % (e,))
        if state["last"] is None:
            break
        result.failures.append(state["last"])
        ignore.add(state["last"][0])
        rounds += 1
    return result


def _shard_entry(args):
    fn_module, fn_name, kwargs = args
    setup_env()
    try:
        import importlib

        mod = importlib.import_module(fn_module)
        fn = getattr(mod, fn_name)
        res = fn(**kwargs)
        if isinstance(res, ShardResult):
            res = res.as_dict()
        return ("ok", res)
    except BaseException as e:  # noqa: BLE001 - reported as harness error by the parent
        if isinstance(e, KeyboardInterrupt):
            raise
        return ("error", traceback.format_exc())


def _job_child(conn, job):
    try:
        os.setsid()  # own process group: the watchdog can kill the shard with its children
    except OSError:
        pass
    try:
        out = _shard_entry(job)
    except BaseException:  # noqa: BLE001
        out = ("error", traceback.format_exc())
    try:
        conn.send(out)
        conn.close()
    finally:
        sys.stdout.flush()
        sys.stderr.flush()
        os._exit(0)


def run_jobs(jobs, processes=None, shard_timeout=None):
    """Run every (module, function, kwargs) job in its own forked process, at most `processes`
    at a time. Returns [(status, payload)] in job order; status is "ok", "error" (harness error,
    payload = traceback) or "timeout" (the shard ran longer than shard_timeout seconds and was
    killed together with its children: inconclusive, never a violation)."""
    import time
    from multiprocessing.connection import wait

    if processes is None:
        processes = min(len(jobs), os.cpu_count() or 1)
    processes = max(1, processes)
    if shard_timeout is None:
        shard_timeout = float(os.environ.get("VF_SHARD_TIMEOUT", "3600"))
    ctx = multiprocessing.get_context("fork")
    outs = [None] * len(jobs)
    pending = list(range(len(jobs)))
    running = {}  # conn -> (index, process, start)

    def kill(proc):
        try:
            os.killpg(proc.pid, signal.SIGKILL)
        except (ProcessLookupError, PermissionError):
            pass
        if proc.is_alive():
            proc.kill()
        proc.join(5)

    try:
        while pending or running:
            while pending and len(running) < processes:
                i = pending.pop(0)
                parent, child = ctx.Pipe(duplex=False)
                sys.stdout.flush()
                sys.stderr.flush()
                proc = ctx.Process(target=_job_child, args=(child, jobs[i]))
                proc.start()
                child.close()
                running[parent] = (i, proc, time.monotonic())
            ready = wait(list(running), timeout=1.0)
            for conn in ready:
                i, proc, _ = running.pop(conn)
                try:
                    outs[i] = conn.recv()
                except (EOFError, OSError):
                    outs[i] = ("error", "shard process died without a result (exit code %r)" % (proc.exitcode,))
                conn.close()
                proc.join(5)
                kill(proc)  # children a shard left behind (ParallelMap workers)
            now = time.monotonic()
            for conn in list(running):
                i, proc, t0 = running[conn]
                if now - t0 > shard_timeout:
                    running.pop(conn)
                    kill(proc)
                    conn.close()
                    outs[i] = ("timeout", "shard %r exceeded %.0f s" % (jobs[i][1:], shard_timeout))
    finally:
        for conn, (i, proc, _) in running.items():
            kill(proc)
    return outs


def merge_job_outputs(run, outs):
    """Merge run_jobs output into a Run: harness errors raise, timeouts count as inconclusive."""
    for status, payload in outs:
        if status == "error":
            raise HarnessError("shard failed:\n" + str(payload))
        if status == "timeout":
            run.inconclusive += 1
            run.bump("inconclusive/shard-timeout")
            print("INCONCLUSIVE: " + str(payload), flush=True)
            continue
        run.merge_shard(payload)


def run_shards(fn_module, fn_name, kwargs_list, processes=None, shard_timeout=None):
    """Run fn(**kwargs) for every kwargs in its own process; returns list of result dicts.

    Raises HarnessError if any shard raised (never converted into a violation). A shard killed by
    the watchdog yields an empty result with inconclusive=1."""
    jobs = [(fn_module, fn_name, kw) for kw in kwargs_list]
    results = []
    for status, payload in run_jobs(jobs, processes, shard_timeout):
        if status == "error":
            raise HarnessError("shard failed:\n" + str(payload))
        if status == "timeout":
            print("INCONCLUSIVE: " + str(payload), flush=True)
            r = ShardResult()
            r.inconclusive = 1
            r.bump("inconclusive/shard-timeout")
            payload = r.as_dict()
        results.append(payload)
    return results


def quiet_stdio():
    """Context manager: silence stdout/stderr prints of the code under test."""
    import contextlib
    import io

    @contextlib.contextmanager
    def cm():
        old_out, old_err = sys.stdout, sys.stderr
        sys.stdout = io.StringIO()
        sys.stderr = io.StringIO()
        try:
            yield
        finally:
            sys.stdout, sys.stderr = old_out, old_err

    return cm()


__all__ = ["hyp_search", "run_shards", "HarnessError", "quiet_stdio", "signal"]
