"""In-process Hypothesis driver with bucketed failures, shrinking to a replay payload, and
sharding over processes.

A *check* is a function case -> list of (bucket, detail, labels). A bucket names the violated
clause, so distinct root causes are separated; buckets listed as open known findings are
counted and skipped so the search continues behind them.
"""

import multiprocessing
import os
import signal
import sys
import traceback

from .common import KnownFindings, ShardResult, derive_seed, setup_env


class HarnessError(Exception):
    pass


class _Found(Exception):
    """Raised inside a Hypothesis test body for a recorded property failure (so that any
    other exception - including AssertionError from harness code - is a harness error)."""


def hyp_search(
    prop,
    strategy,
    check,
    *,
    seed,
    max_examples,
    result,
    nontrivial=None,
    label=None,
    max_buckets=4,
    shrink=True,
    sample_limit=3,
):
    """Run `check` over `strategy` with Hypothesis; record into `result` (ShardResult)."""
    import hypothesis
    from hypothesis import HealthCheck, Phase, given, settings

    known = KnownFindings()
    ignore = set()
    phases = [Phase.generate, Phase.target]
    if shrink:
        phases.append(Phase.shrink)
    rounds = 0
    while rounds < max_buckets:
        state = {"target": None, "last": None}

        def body(case):
            fails = check(case)
            nt = bool(nontrivial(case)) if nontrivial is not None else True
            result.count(case, nontrivial=nt)
            if nt:
                result.sample(case, limit=sample_limit)
            if label is not None:
                for lab in label(case):
                    result.bump(lab)
            unknown = []
            for b, d, lab in fails:
                e = known.match(prop, b, lab)
                if e is not None:
                    result.known_hits[e["id"]] = result.known_hits.get(e["id"], 0) + 1
                    continue
                if b in ignore:
                    continue
                unknown.append((b, d, lab))
            if not unknown:
                return
            if state["target"] is None:
                state["target"] = unknown[0][0]
            for b, d, lab in unknown:
                if b == state["target"]:
                    state["last"] = (b, d, case, lab)
                    raise _Found(b)

        test = given(strategy)(body)
        test = settings(
            max_examples=max_examples,
            database=None,
            deadline=None,
            report_multiple_bugs=False,
            suppress_health_check=list(HealthCheck),
            phases=phases,
            print_blob=False,
        )(test)
        test = hypothesis.seed(derive_seed(seed, rounds))(test)
        try:
            test()
        except _Found:
            pass
        except hypothesis.errors.HypothesisException as e:
            # Flaky etc.: keep the recorded failure if there is one, otherwise harness error
            if state["last"] is None:
                raise HarnessError("hypothesis error without failure: %r" % (e,))
        if state["last"] is None:
            break
        result.failures.append(state["last"])
        ignore.add(state["last"][0])
        rounds += 1
    return result


def _shard_entry(args):
    fn_module, fn_name, kwargs = args
    setup_env()
    try:
        import importlib

        mod = importlib.import_module(fn_module)
        fn = getattr(mod, fn_name)
        res = fn(**kwargs)
        if isinstance(res, ShardResult):
            res = res.as_dict()
        return ("ok", res)
    except BaseException as e:  # noqa: BLE001 - reported as harness error by the parent
        if isinstance(e, KeyboardInterrupt):
            raise
        return ("error", traceback.format_exc())


def run_shards(fn_module, fn_name, kwargs_list, processes=None):
    """Run fn(**kwargs) for every kwargs in its own process; returns list of result dicts.

    Raises HarnessError if any shard raised (never converted into a violation)."""
    if processes is None:
        processes = min(len(kwargs_list), os.cpu_count() or 1)
    processes = max(1, processes)
    jobs = [(fn_module, fn_name, kw) for kw in kwargs_list]
    if processes == 1 or len(jobs) == 1:
        outs = [_shard_entry(j) for j in jobs]
    else:
        # ProcessPoolExecutor workers are not daemonic, so shards may start child processes
        # themselves (ParallelMap workers in C13)
        import concurrent.futures

        ctx = multiprocessing.get_context("fork")
        with concurrent.futures.ProcessPoolExecutor(processes, mp_context=ctx) as ex:
            outs = list(ex.map(_shard_entry, jobs))
    results = []
    for status, payload in outs:
        if status != "ok":
            raise HarnessError("shard failed:\n" + payload)
        results.append(payload)
    return results


def quiet_stdio():
    """Context manager: silence stdout/stderr prints of the code under test."""
    import contextlib
    import io

    @contextlib.contextmanager
    def cm():
        old_out, old_err = sys.stdout, sys.stderr
        sys.stdout = io.StringIO()
        sys.stderr = io.StringIO()
        try:
            yield
        finally:
            sys.stdout, sys.stderr = old_out, old_err

    return cm()


__all__ = ["hyp_search", "run_shards", "HarnessError", "quiet_stdio", "signal"]
