"""Helpers shared by the grid-level oracles: reference equilibrium for a case, location
tables of the grid file, X-point exemptions, and the generic corpus runner."""

import importlib
import multiprocessing
import os
import traceback

import numpy

from . import corpus, families, gridlab, refeq
from .common import ShardResult, jsonable
from .unitlab import HarnessError

TWOPI = 2.0 * numpy.pi

# file variable suffix -> (x offset into psi_vals: index = 2*i + off, staggered in y?)
FILE_LOCS = {
    "": {"off": 1, "side": ("centre", slice(None), slice(None))},
    "_xlow": {"off": 0, "side": ("xlow", slice(None, -1), slice(None))},
    "_ylow": {"off": 1, "side": ("ylow", slice(None), slice(None, -1))},
    "_corners": {"off": 0, "side": ("corners", slice(None, -1), slice(None, -1))},
    "_lower_right_corners": {"off": 2, "side": ("corners", slice(1, None), slice(None, -1))},
    "_upper_right_corners": {"off": 2, "side": ("corners", slice(1, None), slice(1, None))},
    "_upper_left_corners": {"off": 0, "side": ("corners", slice(None, -1), slice(1, None))},
}


class CaseRef:
    """Reference equilibrium (harness' own interpolant + profiles) for a descriptor."""

    def __init__(self, desc):
        self.desc = desc
        fam = desc["family"]
        o = desc.get("options", {})
        self.method = o.get("psi_interpolation_method", "spline")
        if fam == "G":
            inp = families.g_inputs(desc["eq"])
            psi2D = inp["psi2D"].copy()
            psi1D = inp["psi1D"].copy()
            fpol1D = inp["fpol1D"].copy()
            if o.get("reverse_current"):
                psi2D *= -1.0
                psi1D *= -1.0
            if o.get("psi_divide_twopi"):
                psi2D /= TWOPI
                psi1D /= TWOPI
            if o.get("reverse_Bt"):
                fpol1D *= -1.0
            self.inp = inp
            self.psi2D, self.psi1D, self.fpol1D = psi2D, psi1D, fpol1D
            self.pressure1D = inp["pressure"]
            self.ref = refeq.make_ref(inp["R1D"], inp["Z1D"], psi2D, self.method)
            self.analytic = families.g_function(desc["eq"])
            self.psi_scale = float(numpy.max(numpy.abs(psi2D)))
        elif fam == "C":
            self.ref = CircularRef(o)
            self.psi_scale = abs(float(self.ref.psi_r(o.get("r_outer", 0.3))))
            self.inp = None
        elif fam == "T":
            self.ref = CoilRef(desc["eq"]["equilibOptions"])
            self.psi_scale = abs(float(o.get("psi_core", 1e-3)))
            self.inp = None
        else:
            raise ValueError(fam)

    def in_data_domain(self, R, Z, margin=0.0):
        """True where (R, Z) lies inside the rectangle the psi array is given on. Outside it psi is
        whatever the interpolant's extrapolation yields (hypnotoad clamps), so no reference exists;
        guard cells of short legs can reach there."""
        R, Z = numpy.asarray(R, dtype=float), numpy.asarray(Z, dtype=float)
        if self.desc["family"] != "G":
            return numpy.ones(numpy.broadcast(R, Z).shape, dtype=bool)
        R1, Z1 = self.inp["R1D"], self.inp["Z1D"]
        return (R >= R1[0] + margin) & (R <= R1[-1] - margin) & (Z >= Z1[0] + margin) & (Z <= Z1[-1] - margin)

    # profile functions as the *generating* cubic, clipped to the profile range (ext=3)
    def fpol(self, psi):
        if self.desc["family"] == "C":
            return self.ref.fpol(psi)
        if self.desc["family"] == "T":
            # TORPEXMagneticField: fpol = Bt_axis / Rcentre (constant); Rcentre = 1 m
            return self.ref.Bt_axis + 0.0 * numpy.asarray(psi, dtype=float)
        if len(self.fpol1D) == 0:
            return 0.0 * numpy.asarray(psi, dtype=float)
        return self._profile(psi, self.fpol1D)

    def pressure(self, psi):
        if self.pressure1D is None:
            return None
        return self._profile(psi, self.pressure1D)

    def _profile(self, psi, vals):
        """Evaluate the cubic that generated `vals` on the profile grid, clipped."""
        psi = numpy.asarray(psi, dtype=float)
        p0, p1 = self.psi1D[0], self.psi1D[-1]
        t = (psi - p0) / (p1 - p0)
        t = numpy.clip(t, 0.0, 1.0)
        # the generating function is a cubic in t*ext; recover it exactly from 4 samples
        n = len(vals)
        idx = [0, n // 3, (2 * n) // 3, n - 1]
        ts = numpy.array(idx, dtype=float) / (n - 1)
        coef = numpy.polyfit(ts, numpy.asarray(vals)[idx], 3)
        return numpy.polyval(coef, t)


class CircularRef:
    """Closed-form large-aspect-ratio circular equilibrium as documented in
    CircularEquilibrium: dpsi/dr = B0 r/(sqrt(1-r^2/R0^2) q(r)), q = a0 + a1 r^2 + ...,
    psi(0) = 0, fpol = B0 R0. psi(r) is integrated numerically by the harness."""

    def __init__(self, o):
        self.R0 = o.get("R0", 1.0)
        self.B0 = o.get("B0", 1.0)
        self.q = [float(c) for c in numpy.atleast_1d(o.get("q_coefficients", [3.4567890123456789]))]
        rmax = 1.3 * o.get("r_outer", 0.3)
        self._r = numpy.linspace(0.0, rmax, 4001)
        from scipy.integrate import cumulative_simpson

        self._psi = cumulative_simpson(self.dpsidr(self._r), x=self._r, initial=0.0)

    def qf(self, r):
        return sum(c * r ** (2 * k) for k, c in enumerate(self.q))

    def dqdr(self, r):
        return sum(2 * k * c * r ** (2 * k - 1) for k, c in enumerate(self.q) if k > 0)

    def dpsidr(self, r):
        return self.B0 * r / (numpy.sqrt(1.0 - r**2 / self.R0**2) * self.qf(r))

    def d2psidr2(self, r):
        s = numpy.sqrt(1.0 - r**2 / self.R0**2)
        q = self.qf(r)
        return self.B0 * (1.0 / (s * q) + r**2 / (self.R0**2 * s**3 * q) - r * self.dqdr(r) / (s * q * q))

    def psi_r(self, r):
        from scipy.interpolate import CubicSpline

        if not hasattr(self, "_spl"):
            self._spl = CubicSpline(self._r, self._psi)
        return self._spl(r)

    def r(self, R, Z):
        return numpy.sqrt((R - self.R0) ** 2 + numpy.asarray(Z) ** 2)

    def psi(self, R, Z):
        return self.psi_r(self.r(R, Z))

    def dR(self, R, Z):
        r = self.r(R, Z)
        return self.dpsidr(r) * (R - self.R0) / r

    def dZ(self, R, Z):
        r = self.r(R, Z)
        return self.dpsidr(r) * Z / r

    def dRR(self, R, Z):
        r = self.r(R, Z)
        x = R - self.R0
        return self.d2psidr2(r) * x * x / r**2 + self.dpsidr(r) * (1.0 / r - x * x / r**3)

    def dZZ(self, R, Z):
        r = self.r(R, Z)
        return self.d2psidr2(r) * Z * Z / r**2 + self.dpsidr(r) * (1.0 / r - Z * Z / r**3)

    def dRZ(self, R, Z):
        r = self.r(R, Z)
        x = R - self.R0
        return self.d2psidr2(r) * x * Z / r**2 - self.dpsidr(r) * x * Z / r**3

    def fpol(self, psi):
        return self.B0 * self.R0 + 0.0 * numpy.asarray(psi, dtype=float)


class CoilRef:
    """psi of a set of circular coils (TORPEX family): psi = -R A_phi with the textbook vector
    potential of a current loop in complete elliptic integrals; derivatives by 4th-order central
    differences (the harness does not use sympy)."""

    def __init__(self, eqopts):
        self.coils = [(float(c["R"]), float(c["Z"]), float(c["I"])) for c in eqopts["Coils"]]
        self.Bt_axis = float(eqopts.get("Bt_axis", 0.0))
        self.h = 1e-4

    def psi(self, R, Z):
        from scipy.special import ellipe, ellipk

        R = numpy.asarray(R, dtype=float)
        Z = numpy.asarray(Z, dtype=float)
        mu0 = 4.0e-7 * numpy.pi
        A = 0.0 * R
        for Rc, Zc, I in self.coils:
            den = (R + Rc) ** 2 + (Z - Zc) ** 2
            k2 = 4.0 * Rc * R / den
            A = A + I * Rc / numpy.sqrt(den) / k2 * ((2.0 - k2) * ellipk(k2) - 2.0 * ellipe(k2))
        return -R * A * mu0 / numpy.pi

    def _d(self, f, R, Z, axis):
        h = self.h
        if axis == 0:
            return (-f(R + 2 * h, Z) + 8 * f(R + h, Z) - 8 * f(R - h, Z) + f(R - 2 * h, Z)) / (12 * h)
        return (-f(R, Z + 2 * h) + 8 * f(R, Z + h) - 8 * f(R, Z - h) + f(R, Z - 2 * h)) / (12 * h)

    def dR(self, R, Z):
        return self._d(self.psi, R, Z, 0)

    def dZ(self, R, Z):
        return self._d(self.psi, R, Z, 1)

    def dRR(self, R, Z):
        return self._d(self.dR, R, Z, 0)

    def dZZ(self, R, Z):
        return self._d(self.dZ, R, Z, 1)

    def dRZ(self, R, Z):
        return self._d(self.dR, R, Z, 1)


def refine_tolerance(case):
    """T_C01: tolerance on psi at a refined point (see DESIGN.md C01)."""
    o = case.side["mesh_options"]
    atol = float(o.get("refine_atol", 2.0e-8))
    scale = max(1.0, float(numpy.max(numpy.abs(case.nc["psixy"]))))
    return 4.0 * atol * scale


def xpoint_mask(R, Z, xpts):
    """True where (R,Z) equals an X-point of the sidecar exactly (pinned corners)."""
    m = numpy.zeros(numpy.shape(R), dtype=bool)
    for xp in xpts:
        if xp is None:
            continue
        m |= (R == xp[0]) & (Z == xp[1])
    return m


def near_xpoint_mask(R, Z, xpts, dist):
    m = numpy.zeros(numpy.shape(R), dtype=bool)
    for xp in xpts:
        if xp is None:
            continue
        m |= numpy.hypot(R - xp[0], Z - xp[1]) < dist
    return m


# ---------------------------------------------------------------------------------------
# generic corpus runner
# ---------------------------------------------------------------------------------------
def _check_entry(args):
    mod_name, fn_name, desc, path, status, extra = args
    try:
        mod = importlib.import_module(mod_name)
        fn = getattr(mod, fn_name)
        case = gridlab.GridCase(desc, path, status, True)
        out = fn(case, **(extra or {}))
        return ("ok", out)
    except BaseException as e:  # noqa: BLE001
        if isinstance(e, KeyboardInterrupt):
            raise
        return ("error", traceback.format_exc())


def check_cases(mod_name, fn_name, cases, extras=None, processes=16):
    """Apply oracle fn(case, **extra) -> dict(fails=[(bucket, detail, labels)], nontrivial=bool,
    margins={}, hist=[labels]) to every case with outcome 'grid', in parallel."""
    jobs = []
    idx = []
    for i, c in enumerate(cases):
        if c.outcome == "grid":
            jobs.append(
                (mod_name, fn_name, c.desc, c.path, c.status, None if extras is None else extras[i])
            )
            idx.append(i)
    outs = [None] * len(cases)
    if jobs:
        if processes > 1 and len(jobs) > 1:
            ctx = multiprocessing.get_context("fork")
            with ctx.Pool(min(processes, len(jobs)), maxtasksperchild=4) as pool:
                res = pool.map(_check_entry, jobs, chunksize=1)
        else:
            res = [_check_entry(j) for j in jobs]
        for i, (status, payload) in zip(idx, res):
            if status != "ok":
                raise HarnessError("oracle crashed on %s:\n%s" % (cases[i].path, payload))
            outs[i] = payload
    return outs


def in_guard_cells(side, detail):
    """True if the cell / half-cell a failure detail points at (region name + iy | half_index | side)
    lies in the y-boundary guard cells beyond a target."""
    try:
        rid, reg = next((k, r) for k, r in side["regions"].items() if r["name"] == detail.get("region"))
    except StopIteration:
        return False
    g = int(side["mesh_options"].get("y_boundary_guards", 0))
    if g == 0:
        return False
    ny = int(reg["ny"])
    lower = side["connections"][rid].get("lower") is None and str(reg["kind"]).startswith("wall")
    upper = side["connections"][rid].get("upper") is None and str(reg["kind"]).endswith("wall")
    if "iy" in detail:
        iy = int(detail["iy"])
        return (lower and iy < g) or (upper and iy >= ny - g)
    if "half_index" in detail:
        h = int(detail["half_index"])
        return (lower and h < 2 * g) or (upper and h >= 2 * ny - 2 * g)
    if "side" in detail:
        return (lower and detail["side"] == "lower") or (upper and detail["side"] == "upper")
    return False


def full_labels(labels, case):
    """Labels of a failure: the oracle's own plus the stratum and run-level facts of the case."""
    labels = dict(labels or {})
    labels.setdefault("label", corpus.label(case.desc))
    # hypnotoad only warns when the spacing iteration of a FineContour does not converge
    labels.setdefault("finecontour_not_converged", bool(case.status.get("finecontour_max_ds_error", 0.0) > 1e-8))
    return labels


def run_corpus_property(run, mod_name, fn_name, descs, timeout=None, shrinker=None):
    """Execute descs, apply the oracle, fill `run` (counts, histogram, failures)."""
    if timeout is None:
        timeout = 240 if run.tier == "quick" else 900
    cases = gridlab.run_cases(descs, timeout=timeout)
    outs = check_cases(mod_name, fn_name, cases)
    fresh = sum(1 for c in cases if not c.cached)
    st = run.extra.setdefault("_cache_stats", [0, 0])
    st[0] += fresh
    st[1] += len(cases) - fresh
    run.extra["grid_cache_note"] = (
        "%d descriptors executed by hypnotoad in this run, %d re-used from .cache (key = descriptor "
        "+ content hash of /repo sources, so never across code changes)" % (st[0], st[1])
    )
    for c, out in zip(cases, outs):
        lab = corpus.label(c.desc)
        run.bump("outcome/%s" % c.outcome)
        run.bump("label/%s/%s" % (lab, c.outcome))
        if c.outcome == "raised":
            run.bump("raised-at/%s:%s" % (c.status.get("exc_type"), c.status.get("exc_at")))
        if c.outcome == "timeout":
            run.inconclusive += 1
        if out is None:
            run.count(c.desc, nontrivial=False)
            continue
        run.count(c.desc, nontrivial=out.get("nontrivial", True), key=gridlab.desc_id(c.desc))
        if out.get("nontrivial", True):
            run.sample(c.desc)
        for h in out.get("hist", []):
            run.bump(h)
        for k, v in out.get("margins", {}).items():
            m = run.extra.setdefault("max_error_over_tolerance", {})
            m[k] = max(m.get(k, 0.0), float(v))
        for bucket, detail, labels in out.get("fails", []):
            labels = full_labels(labels, c)
            if run.is_known(bucket, labels):
                run.failure(bucket, detail, {"desc": c.desc}, labels)
                continue
            if any(b == bucket for b, _, _ in run.violations):
                continue
            desc = c.desc
            if shrinker is not False:
                budget = 32 if run.tier == "quick" else 160
                desc, used = shrink(c.desc, bucket, mod_name, fn_name, budget=budget, log=print,
                                    is_known=lambda b, l_, case: run.is_known(b, full_labels(l_, case)))
                run.extra["shrink_evaluations"] = run.extra.get("shrink_evaluations", 0) + used
                if desc is not c.desc:
                    # re-evaluate to report the detail of the minimal case
                    mc = gridlab.run_cases([desc], timeout=timeout)
                    mo = check_cases(mod_name, fn_name, mc, processes=1)[0]
                    for b2, d2, l2 in (mo or {}).get("fails", []):
                        if b2 == bucket:
                            detail = d2
            run.failure(bucket, detail, {"desc": desc, "original": c.desc}, labels)
    return cases, outs


def replay_corpus_property(run, mod_name, fn_name, payload):
    desc = payload["case"]["desc"]
    cases = gridlab.run_cases([desc], timeout=1800)
    outs = check_cases(mod_name, fn_name, cases, processes=1)
    c, out = cases[0], outs[0]
    if out is None:
        print("replay: outcome=%s %s" % (c.outcome, c.status.get("exc_msg", "")[:300]))
        return
    for bucket, detail, labels in out.get("fails", []):
        if bucket == payload["bucket"]:
            run.failure(bucket, detail, {"desc": desc}, full_labels(labels, c))


# ---------------------------------------------------------------------------------------
# descriptor shrinking (own delta debugger: a case costs seconds, so candidates are run 16
# at a time and bounded by count, not by time)
# ---------------------------------------------------------------------------------------
ESSENTIAL_OPTIONS = {"orthogonal"}
SIZE_KEYS = ("nx_", "ny_")


def _size(desc):
    return len(json_dumps(desc))


def json_dumps(d):
    import json

    return json.dumps(jsonable(d), sort_keys=True)


def simplifications(desc):
    """Single-step simplifications of a descriptor, most aggressive first."""
    import copy

    out = []
    o = desc.get("options", {})
    eq = desc.get("eq", {})

    def variant(fn):
        d = copy.deepcopy(desc)
        fn(d)
        if json_dumps(d) != json_dumps(desc):
            out.append(d)

    optional = [k for k in o if k not in ESSENTIAL_OPTIONS and not k.startswith(SIZE_KEYS)
                and k not in ("nx", "ny", "r_inner", "r_outer", "R0", "B0", "q_coefficients", "limiter")]

    def drop_all(d):
        for k in optional:
            d["options"].pop(k, None)

    variant(drop_all)
    half = len(optional) // 2
    for part in (optional[:half], optional[half:]):
        def drop_part(d, part=part):
            for k in part:
                d["options"].pop(k, None)
        variant(drop_part)
    if desc.get("family") == "G":
        def plain_eq(d):
            e = d["eq"]
            for k in ("jitter", "delta", "pres", "profile_extent"):
                e.pop(k, None)
            e["A"] = 1.0
            e["nR"] = e["nZ"] = 65
            e["wall"] = {"kind": "rect"}
        variant(plain_eq)
        for k in ("jitter", "delta", "pres", "fpol", "profile_extent"):
            variant(lambda d, k=k: d["eq"].pop(k, None))
        variant(lambda d: d["eq"].__setitem__("A", 1.0))
        variant(lambda d: d["eq"].__setitem__("sign", 1.0))
        variant(lambda d: d["eq"].__setitem__("wall", {"kind": "rect"}))
        variant(lambda d: (d["eq"].__setitem__("nR", 65), d["eq"].__setitem__("nZ", 65)))
    for k in optional:
        variant(lambda d, k=k: d["options"].pop(k, None))
    for k in o:
        if k.startswith("ny_") and isinstance(o[k], int) and o[k] > 3:
            variant(lambda d, k=k: d["options"].__setitem__(k, max(3, d["options"][k] // 2)))
        if k.startswith("nx_") and isinstance(o[k], int) and o[k] > 1:
            variant(lambda d, k=k: d["options"].__setitem__(k, max(1, d["options"][k] // 2)))
    return out


def shrink(desc, bucket, mod_name, fn_name, budget=48, timeout=600, log=None, is_known=None):
    """Minimise desc keeping `bucket` failing. Returns (minimal desc, evaluations).

    is_known(bucket, labels, case): candidates whose failure is a listed known finding are not
    accepted (the minimal reproduction must still show the unlisted violation)."""
    used = 0
    current = desc
    while used < budget:
        cands = simplifications(current)[: max(0, budget - used)]
        if not cands:
            break
        cases = gridlab.run_cases(cands, timeout=timeout)
        outs = check_cases(mod_name, fn_name, cases)
        used += len(cands)
        better = None
        for cand, case, out in zip(cands, cases, outs):
            if out is None:
                continue
            if any(b == bucket and not (is_known and is_known(b, lab_, case)) for b, _, lab_ in out.get("fails", [])):
                if better is None or _size(cand) < _size(better):
                    better = cand
        if better is None:
            break
        current = better
        if log:
            log("  shrink: %d evaluations, descriptor size %d" % (used, _size(current)))
    return current, used
