"""Reference field: the harness' own interpolant of the input psi array (spline via scipy's
RectBivariateSpline built here, DCT via an own direct cosine-series evaluation), analytic
derivatives, and tracers along / across flux surfaces.
"""

import math

import numpy
from scipy import interpolate
from scipy.integrate import solve_ivp


class RefSpline:
    def __init__(self, R1D, Z1D, psi2D):
        self.f = interpolate.RectBivariateSpline(R1D, Z1D, psi2D)

    def psi(self, R, Z):
        return self.f(R, Z, grid=False)

    def dR(self, R, Z):
        return self.f(R, Z, dx=1, grid=False)

    def dZ(self, R, Z):
        return self.f(R, Z, dy=1, grid=False)

    def dRR(self, R, Z):
        return self.f(R, Z, dx=2, grid=False)

    def dZZ(self, R, Z):
        return self.f(R, Z, dy=2, grid=False)

    def dRZ(self, R, Z):
        return self.f(R, Z, dx=1, dy=1, grid=False)


class RefDCT:
    """f(R,Z) = sum_{n,m} C[n,m] cos(pi m (iR+1/2)/nR) cos(pi n (iZ+1/2)/nZ), the inverse
    DCT-III series of the type-II transform of the data, evaluated at real index
    positions. Coefficients are computed by explicit matrix products (no FFT library)."""

    def __init__(self, R1D, Z1D, psi2D):
        R1D = numpy.asarray(R1D, dtype=float)
        Z1D = numpy.asarray(Z1D, dtype=float)
        a = numpy.asarray(psi2D, dtype=float)  # [iR, iZ]
        self.nR, self.nZ = len(R1D), len(Z1D)
        self.R0, self.Z0 = R1D[0], Z1D[0]
        self.sR = (self.nR - 1) / (R1D[-1] - R1D[0])
        self.sZ = (self.nZ - 1) / (Z1D[-1] - Z1D[0])
        kR = numpy.arange(self.nR)
        kZ = numpy.arange(self.nZ)
        # DCT-II matrices: y[k] = 2 sum_n x[n] cos(pi k (2n+1)/(2N))
        MR = 2.0 * numpy.cos(numpy.pi * numpy.outer(kR, 2 * kR + 1) / (2 * self.nR))
        MZ = 2.0 * numpy.cos(numpy.pi * numpy.outer(kZ, 2 * kZ + 1) / (2 * self.nZ))
        # inverse: x[n] = (1/N) (y0/2 + sum_{k>=1} y[k] cos(pi k (n+1/2)/N)) per dimension
        C = (MR @ a @ MZ.T) / (self.nR * self.nZ)  # [kR, kZ]
        C[0, :] /= 2.0
        C[:, 0] /= 2.0
        self.C = C
        self.wR = numpy.pi * kR / self.nR
        self.wZ = numpy.pi * kZ / self.nZ
        # normalisation check against the data at the nodes is done in selftest()

    def _ev(self, R, Z, dr, dz):
        R = numpy.asarray(R, dtype=float)
        Z = numpy.asarray(Z, dtype=float)
        shape = numpy.broadcast(R, Z).shape
        R, Z = numpy.broadcast_arrays(R, Z)
        iR = ((R - self.R0) * self.sR).ravel() + 0.5
        iZ = ((Z - self.Z0) * self.sZ).ravel() + 0.5
        aR = numpy.outer(iR, self.wR)
        aZ = numpy.outer(iZ, self.wZ)

        def basis(a, w, s, d):
            if d == 0:
                return numpy.cos(a)
            if d == 1:
                return -numpy.sin(a) * (w * s)
            return -numpy.cos(a) * (w * s) ** 2

        bR = basis(aR, self.wR, self.sR, dr)
        bZ = basis(aZ, self.wZ, self.sZ, dz)
        out = numpy.einsum("pm,mn,pn->p", bR, self.C, bZ)
        return out.reshape(shape) if shape else float(out[0])

    def psi(self, R, Z):
        return self._ev(R, Z, 0, 0)

    def dR(self, R, Z):
        return self._ev(R, Z, 1, 0)

    def dZ(self, R, Z):
        return self._ev(R, Z, 0, 1)

    def dRR(self, R, Z):
        return self._ev(R, Z, 2, 0)

    def dZZ(self, R, Z):
        return self._ev(R, Z, 0, 2)

    def dRZ(self, R, Z):
        return self._ev(R, Z, 1, 1)


def make_ref(R1D, Z1D, psi2D, method):
    if method == "spline":
        return RefSpline(R1D, Z1D, psi2D)
    return RefDCT(R1D, Z1D, psi2D)


class RefEq:
    """Reference equilibrium = reference psi + profile functions supplied by the harness."""

    def __init__(self, ref, fpol=None, fpolprime=None):
        self.ref = ref
        self.fpol = fpol or (lambda psi: 0.0 * numpy.asarray(psi))
        self.fpolprime = fpolprime or (lambda psi: 0.0 * numpy.asarray(psi))

    def psi(self, R, Z):
        return self.ref.psi(R, Z)

    def BR(self, R, Z):
        return self.ref.dZ(R, Z) / R

    def BZ(self, R, Z):
        return -self.ref.dR(R, Z) / R

    def Bp(self, R, Z):
        return numpy.sqrt(self.BR(R, Z) ** 2 + self.BZ(R, Z) ** 2)

    def Bt(self, R, Z):
        return self.fpol(self.psi(R, Z)) / R

    def gradpsi(self, R, Z):
        return self.ref.dR(R, Z), self.ref.dZ(R, Z)


# ------------------------------------------------------------------------------ tracers --
def trace_surface(ref, p0, direction, length, rtol=1e-11, atol=1e-13, extra=None, dense=True):
    """Follow the flux surface through p0: dr/ds = direction * zhat x grad psi/|grad psi|
    (unit speed, s = arc length). `extra(R,Z)` integrand is integrated alongside.
    Returns the solve_ivp solution (dense) with state (R, Z[, I])."""

    def rhs(s, y):
        R, Z = y[0], y[1]
        gR = float(ref.dR(R, Z))
        gZ = float(ref.dZ(R, Z))
        g = math.hypot(gR, gZ)
        out = [direction * (-gZ) / g, direction * gR / g]
        if extra is not None:
            out.append(float(extra(R, Z)))
        return out

    y0 = [p0[0], p0[1]] + ([0.0] if extra is not None else [])
    return solve_ivp(
        rhs, (0.0, length), y0, method="DOP853", rtol=rtol, atol=atol, dense_output=dense
    )


def trace_gradpsi(ref, p0, psi0, psi_targets, rtol=1e-11, atol=1e-13):
    """Follow grad psi from p0 (where psi = psi0): dr/dpsi = grad psi/|grad psi|^2.
    Returns array of points at psi_targets (monotone from psi0)."""

    def rhs(p, y):
        gR = float(ref.dR(y[0], y[1]))
        gZ = float(ref.dZ(y[0], y[1]))
        g2 = gR * gR + gZ * gZ
        return [gR / g2, gZ / g2]

    psi_targets = numpy.asarray(psi_targets, dtype=float)
    if len(psi_targets) == 0:
        return numpy.zeros((0, 2))
    end = psi_targets[-1]
    if end == psi0:
        return numpy.tile(numpy.array(p0, dtype=float), (len(psi_targets), 1))
    sol = solve_ivp(
        rhs, (psi0, end), list(p0), method="DOP853", rtol=rtol, atol=atol, t_eval=psi_targets
    )
    if not sol.success or sol.y.shape[1] != len(psi_targets):
        return None
    return sol.y.T


def arc_between(ref, pa, pb, direction_hint=None, max_len=None, extra=None):
    """Arc length (and integral of `extra`) along the flux surface from pa to pb.

    Traces from pa in the direction that initially approaches pb (or direction_hint) and
    stops at the closest approach to pb. Returns (arc, integral, miss) where miss is the
    distance from the end of the trace to pb; None if not reached."""
    pa = numpy.asarray(pa, dtype=float)
    pb = numpy.asarray(pb, dtype=float)
    chord = float(numpy.hypot(*(pb - pa)))
    if chord == 0.0:
        return 0.0, 0.0, 0.0
    if max_len is None:
        max_len = 3.0 * chord + 1e-6
    gR = float(ref.dR(pa[0], pa[1]))
    gZ = float(ref.dZ(pa[0], pa[1]))
    t = numpy.array([-gZ, gR])
    if direction_hint is None:
        direction = 1.0 if float(numpy.dot(t, pb - pa)) >= 0 else -1.0
    else:
        direction = direction_hint

    def rhs(s, y):
        R, Z = y[0], y[1]
        a = float(ref.dR(R, Z))
        b = float(ref.dZ(R, Z))
        g = math.hypot(a, b)
        out = [direction * (-b) / g, direction * a / g]
        if extra is not None:
            out.append(float(extra(R, Z)))
        return out

    def closest(s, y):
        # derivative of |r - pb|^2 / 2 along the curve: (r - pb) . t
        R, Z = y[0], y[1]
        a = float(ref.dR(R, Z))
        b = float(ref.dZ(R, Z))
        g = math.hypot(a, b)
        return (R - pb[0]) * direction * (-b) / g + (Z - pb[1]) * direction * a / g

    closest.terminal = True
    closest.direction = 1.0
    y0 = [pa[0], pa[1]] + ([0.0] if extra is not None else [])
    sol = solve_ivp(
        rhs,
        (0.0, max_len),
        y0,
        method="DOP853",
        rtol=1e-11,
        atol=1e-13,
        events=closest,
    )
    if sol.status != 1 or len(sol.t_events[0]) == 0:
        return None
    s = float(sol.t_events[0][0])
    ye = sol.y_events[0][0]
    miss = float(math.hypot(ye[0] - pb[0], ye[1] - pb[1]))
    integ = float(ye[2]) if extra is not None else 0.0
    return s, integ, miss
